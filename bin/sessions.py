"""Session scripts for `vh cli`: random generators and conversion of TLC-generated paths."""

PROMPTS = ["$ ", "", "ж> ", "> ", "dev:~# ", "中", "=> ", "λ "]

SETS = {
    "raw": [],
    "leds": ["get-led", "exit", "get-adc", "go"],
    "mixed": ["set-all", "set", "жа", "жб", "h", "help-me", "s", "中文", "😀x"],
    "grouped": ["hello", "stop", "get-led", "exit", "get-adc", "go"],
    "tiny": ["ab", "aé", "b"],
    "wide": ["led-開", "led-閉", "go-😀", "go-😁", "€a", "€"],
    "grouped2": ["get", "set", "get-led", "get-adc", "reset", "set-all"],
}

KEY_BYTES = {
    "bs": [8], "tab": [9], "enter": [13], "up": [27, 91, 65], "down": [27, 91, 66],
    "right": [27, 91, 67], "left": [27, 91, 68],
}

# printable scalars of display width 1, of every UTF-8 length (no C1, combining, wide, RTL)
W1_1 = [0x61, 0x62, 0x7A, 0x41, 0x30, 0x2D, 0x7E, 0x21]
W1_2 = [0xE9, 0x436, 0x3B1, 0x7FF - 0x7FF + 0x44F, 0xA9]
W1_3 = [0x10D0, 0x20AC, 0x2013, 0x1E9E]
W1_4 = [0x1D400, 0x1D7FF, 0x10330]
W1 = W1_1 + W1_2 + W1_3 + W1_4

OUT_TEXTS = ["x", "ok", "a\nb", "line\r\n", "", "ж", "\n", "two\n\nlines", "tail\n", "€uro", "a b  ", "\r\n", "p: 1\nq: 2\n"]


def utf8(cp):
    return list(chr(cp).encode("utf-8"))


def text_bytes(s):
    return list(s.encode("utf-8"))


# literals the harness can pass to write! / writeln! / uwrite! / uwriteln! without run-time arguments
K_LITS = ["done", "", "ok\n", "a\nb", "x", "ж€ z", "two\r\nrows\n"]
METHODS = ("w", "wl", "u", "f", "fc", "uc", "kf", "kl", "ku", "kn")


def chunk(rng, texts=OUT_TEXTS, methods=METHODS):
    m = rng.choice(methods)
    c = {"m": m, "t": text_bytes(rng.choice(texts))}
    if m in ("kf", "ku"):
        c["t"] = text_bytes(rng.choice(K_LITS))
    elif m in ("kl", "kn"):
        c["t"] = text_bytes(rng.choice(K_LITS) + "\n")
    if m in ("le", "ti"):
        # Writer::write_list_element(name, description, width) / write_title: single-line texts, any width
        c["t"] = text_bytes(rng.choice(["name", "", "longer-name", "ж", "x"]))
        c["d"] = text_bytes(rng.choice(["", "does things", "описание"]))
        c["w"] = rng.choice([0, 1, 4, 6, 11, 40])
    return c


def handler_script(rng, p_out, p_prompt, texts=OUT_TEXTS, methods=METHODS, p_perr=0.0):
    hs = {}
    if rng.random() < p_perr:
        # a hand-written processor that rejects the command (after whatever it wrote)
        hs["perr"] = rng.choice([1, 2, 3])
    if rng.random() < p_out:
        hs["chunks"] = [chunk(rng, texts, methods) for _ in range(rng.randint(1, 3))]
    if rng.random() < p_prompt:
        hs["p"] = rng.randrange(len(PROMPTS))
    return hs


DEFAULT_W = {"char": 40, "space": 6, "quote": 2, "bs": 8, "left": 8, "right": 6, "up": 6, "down": 4, "tab": 5,
             "enter": 8, "word": 6, "write": 0, "prompt": 0, "ctl": 0, "rawbyte": 0, "csi": 0, "dash": 2}


def gen_session(rng, sid, prof):
    """One random session script. `prof` keys: cmd, hcap (lists of sizes), sets, prompts (indices),
    alphabet (scalars), w (weights), steps (lo, hi), hs_out, hs_prompt, enter_forms, texts, methods."""
    w = dict(DEFAULT_W)
    w.update(prof.get("w", {}))
    kinds = [k for k in w if w[k] > 0]
    weights = [w[k] for k in kinds]
    set_id = rng.choice(prof.get("sets", ["leds"]))
    names = SETS[set_id] + ["help"]
    alphabet = prof.get("alphabet", W1)
    cfg = {"cmd": rng.choice(prof.get("cmd", [8])), "hcap": rng.choice(prof.get("hcap", [16])), "set": set_id,
           "prompt": rng.choice(prof.get("prompts", [0])), "partial": rng.choice(prof.get("partial", [0])),
           "poison": prof.get("poison", False), "rawproc": rng.random() < prof.get("rawproc", 0.3)}
    # now and then construct the Cli in the other ways the API offers (array buffers, builder defaults, Cli::new)
    if rng.random() < prof.get("ctor_mix", 0.12):
        cfg["ctor"] = rng.choice(["default", "arrays", "promptfirst", "promptfirst", "new"])
    enter_forms = prof.get("enter_forms", [[13]])
    texts = prof.get("texts", OUT_TEXTS)
    methods = prof.get("methods", METHODS)
    steps = []
    lo, hi = prof.get("steps", (10, 60))
    n = rng.randint(lo, hi)

    def add_bytes(bs, with_hs=False):
        for b in bs:
            st = {"ev": "byte", "b": b}
            if with_hs and b in (13, 10):
                hs = handler_script(rng, prof.get("hs_out", 0.0), prof.get("hs_prompt", 0.0), texts, methods, prof.get("hs_perr", 0.1))
                if hs:
                    st["hs"] = hs
            steps.append(st)

    while len(steps) < n:
        k = rng.choices(kinds, weights)[0]
        if k == "char":
            add_bytes(utf8(rng.choice(alphabet)))
        elif k == "space":
            add_bytes([32])
        elif k == "quote":
            add_bytes([rng.choice([34, 92])])
        elif k == "dash":
            add_bytes([45])
        elif k in KEY_BYTES and k != "enter":
            add_bytes(KEY_BYTES[k])
        elif k == "enter":
            add_bytes(rng.choice(enter_forms), with_hs=True)
        elif k == "word":
            name = rng.choice(names)
            cut = rng.randint(1, len(name))
            for ch in name[:cut]:
                add_bytes(utf8(ord(ch)))
            r = rng.random()
            if r < 0.4:
                add_bytes([9])
            elif r < 0.6:
                add_bytes([32])
        elif k == "write":
            steps.append({"ev": "write", "chunks": [chunk(rng, texts, methods) for _ in range(rng.randint(0, 3))]})
        elif k == "prompt":
            steps.append({"ev": "prompt", "p": rng.randrange(len(PROMPTS))})
        elif k == "ctl":
            add_bytes([rng.choice([0, 1, 2, 3, 4, 5, 6, 7, 11, 12, 14, 15, 16, 26, 27, 28, 31])])
        elif k == "csi":
            add_bytes([27, 91] + [rng.randrange(0x20, 0x40) for _ in range(rng.randint(0, 4))] + [rng.randrange(0x40, 0x7F)])
        elif k == "rawbyte":
            add_bytes([rng.randrange(256)], with_hs=True)
    return {"sid": sid, "cfg": cfg, "steps": steps}


def gen_sessions(rng, n, prof, sid0=1):
    return [gen_session(rng, sid0 + i, prof) for i in range(n)]


def path_to_script(sid, path, cfg, scripts_table, writes_table, prompts_idx):
    """Convert a path printed by MC_Cli (events [e,k,cp,n]) into a session script."""
    steps = []
    for ev in path:
        if ev["e"] == "key":
            k = ev["k"]
            if k == "char":
                for b in utf8(ev["cp"]):
                    steps.append({"ev": "byte", "b": b})
            elif k == "enter":
                st = {"ev": "byte", "b": 13}
                hs = scripts_table[ev["n"] - 1]
                if hs:
                    st["hs"] = hs
                steps.append(st)
            else:
                for b in KEY_BYTES[k]:
                    steps.append({"ev": "byte", "b": b})
        elif ev["e"] == "write":
            steps.append({"ev": "write", "chunks": writes_table[ev["n"] - 1]})
        elif ev["e"] == "prompt":
            steps.append({"ev": "prompt", "p": prompts_idx[ev["n"] - 1]})
    return {"sid": sid, "cfg": cfg, "steps": steps}
