"""Shared plumbing for the checks: building the harness from /repo's working tree, running
TLC (model checking with transition emission, trace validation), collecting evidence,
reporting violations / known findings with the required exit codes.

Exit codes: 0 property held on everything explored (KNOWN-FINDING lines allowed),
            1 with `VIOLATION property=<id> replay=<path>`,
            2 tool error / timeout (never a VIOLATION line).
"""
import json
import os
import re
import shutil
import subprocess
import sys
import threading
import time

ROOT = os.path.dirname(os.path.dirname(os.path.abspath(__file__)))
SPECS = os.path.join(ROOT, "specs")
HARNESS = os.path.join(ROOT, "harness")
OUT = os.path.join(ROOT, "out")
EVIDENCE = os.path.join(ROOT, "evidence")
REPO = "/repo"
KNOWN = os.path.join(ROOT, "known_findings.json")

ALL_FEATURES = ("history", "autocomplete", "help")


class ToolError(Exception):
    pass


def log(*a):
    print(*a, file=sys.stderr, flush=True)


def sh(cmd, cwd=None, env=None, timeout=None, stdin=None, check=True, capture=True):
    e = dict(os.environ)
    if env:
        e.update(env)
    try:
        p = subprocess.run(cmd, cwd=cwd, env=e, timeout=timeout, input=stdin,
                           stdout=subprocess.PIPE if capture else None,
                           stderr=subprocess.STDOUT if capture else None, text=True)
    except subprocess.TimeoutExpired:
        raise ToolError("timeout: %s" % " ".join(cmd))
    if check and p.returncode != 0:
        raise ToolError("command failed (%d): %s\n%s" % (p.returncode, " ".join(cmd), (p.stdout or "")[-4000:]))
    return p


# ---------------------------------------------------------------------------------------
# harness

def feature_tag(features):
    fs = [f for f in ALL_FEATURES if f in features]
    return "-".join(f[:4] for f in fs) if fs else "none"


def build_harness(features=ALL_FEATURES, release=False):
    """Build vh from /repo's current working tree; returns the binary path."""
    lock = os.path.join(HARNESS, "Cargo.lock")
    if not os.path.exists(lock):
        shutil.copy(os.path.join(REPO, "Cargo.lock"), lock)
    tag = feature_tag(features)
    target = os.path.join(HARNESS, "target" if tag == feature_tag(ALL_FEATURES) else "target-" + tag)
    cmd = ["cargo", "build", "--offline", "--quiet", "--target-dir", target, "--no-default-features"]
    fs = [f for f in ALL_FEATURES if f in features]
    if fs:
        cmd += ["--features", ",".join(fs)]
    if release:
        cmd.append("--release")
    t0 = time.time()
    p = sh(cmd, cwd=HARNESS, env={"CARGO_NET_OFFLINE": "true"}, timeout=1800, check=False)
    if p.returncode != 0:
        raise ToolError("harness build failed (features=%s)\n%s" % (tag, p.stdout[-6000:]))
    log("[build] vh features=%s %s %.1fs" % (tag, "release" if release else "dev", time.time() - t0))
    return os.path.join(target, "release" if release else "debug", "vh")


# ---------------------------------------------------------------------------------------
# TLC

TLC_JAR = "/opt/veriftools/tla/tla2tools.jar"
_counter = [0]


def _metadir(workdir):
    _counter[0] += 1
    d = os.path.join(workdir, "tlc-%d-%d" % (os.getpid(), _counter[0]))
    return d


def tlc_mc(workdir, module, cfg_text, workers=4, timeout=900, heap=None, want_T=True, coverage=False, env_extra=None):
    """Model-check `module` (in SPECS) with the given cfg text. Returns dict with states,
    distinct, T (list of decoded JSON values printed by the Emit action constraint)."""
    os.makedirs(workdir, exist_ok=True)
    _counter[0] += 1
    cfg = os.path.join(workdir, "%s-%d.cfg" % (module, _counter[0]))
    with open(cfg, "w") as f:
        f.write(cfg_text)
    meta = _metadir(workdir)
    cmd = ["timeout", str(timeout), "tlc", "-workers", str(workers), "-metadir", meta, "-cleanup",
           "-noGenerateSpecTE", "-config", cfg]
    if coverage:
        cmd += ["-coverage", "1"]
    cmd.append(os.path.join(SPECS, module + ".tla"))
    env = {}
    if heap:
        env["JAVA_TOOL_OPTIONS"] = "-Xmx%s" % heap
    if env_extra:
        env.update(env_extra)
    t0 = time.time()
    p = sh(cmd, cwd=SPECS, env=env, check=False, timeout=timeout + 30)
    shutil.rmtree(meta, ignore_errors=True)
    out = p.stdout
    m = re.search(r"(\d+) states generated, (\d+) distinct states found, (\d+) states left", out)
    ok = "Model checking completed. No error has been found." in out
    if p.returncode == 124:
        raise ToolError("TLC timeout on %s" % module)
    if not ok or not m:
        raise ToolError("TLC model checking of %s failed:\n%s" % (module, out[-6000:]))
    T = []
    other = {}
    for line in out.splitlines():
        if len(line) > 3 and line[0] == '"' and line[2] == '|':
            inner = json.loads(line)  # TLA+ string escapes are JSON compatible here
            if inner[0] == "T":
                if want_T:
                    T.append(json.loads(inner[2:]))
            else:
                other.setdefault(inner[0], []).append(json.loads(inner[2:]))
    res = {"module": module, "states_generated": int(m.group(1)), "distinct": int(m.group(2)),
           "T": T, "lines": other, "wall_s": round(time.time() - t0, 2), "out": out}
    if want_T and T and len(T) != res["states_generated"] - 1 and "CONSTRAINT" not in cfg_text.replace("ACTION_CONSTRAINT", ""):
        # one line per explored transition (initial state excluded); a mismatch means lost output
        raise ToolError("TLC emitted %d transitions but generated %d states (%s)" % (len(T), res["states_generated"], module))
    log("[tlc] %s: %d generated, %d distinct, %d transitions emitted, %.1fs" % (
        module, res["states_generated"], res["distinct"], len(T), res["wall_s"]))
    return res


def tlc_validate(workdir, spec, trace_path, env_extra=None, timeout=1800, heap="3g"):
    """Validate an ndjson trace against trace spec `spec` (ModTrace / CliTrace).
    Returns dict(accepted, n_accepted, failed_tags, detail)."""
    meta = _metadir(workdir)
    env = {"TRACE": trace_path,
           "JAVA_TOOL_OPTIONS": "-Xss1g -Xmx%s -Dtlc2.tool.queue.IStateQueue=StateDeque" % heap}
    if env_extra:
        env.update(env_extra)
    cmd = ["timeout", str(timeout), "tlc", "-workers", "1", "-metadir", meta, "-cleanup",
           "-noGenerateSpecTE", "-config", os.path.join(SPECS, spec + ".cfg"),
           os.path.join(SPECS, spec + ".tla")]
    t0 = time.time()
    p = sh(cmd, cwd=SPECS, env=env, check=False, timeout=timeout + 30)
    shutil.rmtree(meta, ignore_errors=True)
    out = p.stdout
    if p.returncode == 124:
        raise ToolError("TLC timeout validating %s" % trace_path)
    acc = re.search(r'^"ACCEPTED\|(\d+)"', out, re.M)
    rej = re.search(r'^"REJECTED-AT\|(\d+)"', out, re.M)
    wall = round(time.time() - t0, 2)
    if acc and "No error has been found" in out:
        return {"accepted": True, "n_accepted": int(acc.group(1)), "wall_s": wall}
    if rej:
        tags = re.findall(r'^"FAILED\|(.*)"$', out, re.M)
        # detail: everything printed between the first FAILED line and the REJECTED line
        i = out.find('"FAILED|')
        j = out.find('"REJECTED-AT|')
        detail = out[i:j] if i >= 0 else ""
        return {"accepted": False, "n_accepted": int(rej.group(1)) - 1, "failed_tags": tags,
                "detail": detail[-3000:], "wall_s": wall}
    raise ToolError("TLC trace validation error (%s on %s):\n%s" % (spec, trace_path, out[-6000:]))


def apalache_check(workdir, module_path, args, timeout=900):
    """Run apalache-mc check; returns True iff the outcome is NoError. Tool failures raise."""
    out_dir = os.path.join(workdir, "apalache-out")
    cmd = ["timeout", str(timeout), "apalache-mc", "check", "--out-dir=" + out_dir] + args + [module_path]
    p = sh(cmd, cwd=os.path.dirname(module_path), check=False, timeout=timeout + 30)
    shutil.rmtree(out_dir, ignore_errors=True)
    if "The outcome is: NoError" in p.stdout:
        return True
    if "The outcome is: Error" in p.stdout:
        return False
    raise ToolError("apalache failed:\n" + p.stdout[-3000:])


def tlapm_check(module_path, timeout=900):
    """Run the TLA+ proof system on a module; returns (proved, total). Tool failures raise."""
    p = sh(["timeout", str(timeout), "tlapm", "--threads", "8", "--cleanfp", os.path.basename(module_path)],
           cwd=os.path.dirname(module_path), check=False, timeout=timeout + 30)
    m = re.search(r"All (\d+) obligations? proved", p.stdout)
    if m:
        return int(m.group(1)), int(m.group(1))
    m = re.search(r"(\d+)/(\d+) obligations failed", p.stdout)
    if m:
        return int(m.group(2)) - int(m.group(1)), int(m.group(2))
    raise ToolError("tlapm failed:\n" + p.stdout[-3000:])


# ---------------------------------------------------------------------------------------
# harness runs

def vh_mod(vh, workdir, requests, name):
    req = os.path.join(workdir, name + ".req.ndjson")
    rec = os.path.join(workdir, name + ".rec.ndjson")
    with open(req, "w") as f:
        for r in requests:
            f.write(json.dumps(r, separators=(",", ":")) + "\n")
    p = sh([vh, "mod", req, rec], check=False, timeout=3600)
    return rec, p


def read_ndjson(path):
    with open(path) as f:
        return [json.loads(l) for l in f if l.strip()]


def nth_line(path, n):
    """1-based"""
    with open(path) as f:
        for i, l in enumerate(f, 1):
            if i == n:
                return l
    return None


def count_lines(path):
    n = 0
    with open(path, "rb") as f:
        for _ in f:
            n += 1
    return n


# ---------------------------------------------------------------------------------------
# known findings

def load_known():
    if not os.path.exists(KNOWN):
        return []
    with open(KNOWN) as f:
        return json.load(f).get("known", [])


def match_known(pid, sig):
    """A violation matches a listed finding iff the finding's `match` dict is contained in
    the violation's signature (specific input / call site), so that a different violation
    of the same property is still reported."""
    for k in load_known():
        if k.get("property") != pid:
            continue
        m = k.get("match", {})
        if m and all(sig.get(key) == val for key, val in m.items()):
            return k
    return None


# ---------------------------------------------------------------------------------------
# check context

class Ctx:
    def __init__(self, pid, tier, seed):
        self.pid = pid
        self.tier = tier
        self.seed = seed
        self.t0 = time.time()
        self.workdir = os.path.join(OUT, "%s-%s" % (pid, tier))
        shutil.rmtree(self.workdir, ignore_errors=True)
        os.makedirs(self.workdir, exist_ok=True)
        os.makedirs(os.path.join(OUT, "replays"), exist_ok=True)
        self.states = 0
        self.transitions = 0
        self.traces = 0
        self.events = 0
        self.replayed = 0
        self.samples = []
        self.models = []
        self.violations = []
        self.known = []
        self.extra = {}
        self.assumptions = []
        self.exhaustive = None
        self.nviol_files = 0
        self.lock = threading.Lock()
        self.max_files = 6

    # -- accumulation ---------------------------------------------------------------
    def add_mc(self, res):
        self.states += res["distinct"]
        self.transitions += max(res["states_generated"] - 1, 0)
        self.models.append({"module": res["module"], "distinct_states": res["distinct"],
                            "states_generated": res["states_generated"],
                            "transitions_emitted": len(res["T"]), "wall_s": res["wall_s"],
                            **({"constants": res["constants"]} if "constants" in res else {})})

    def sample(self, s):
        if len(self.samples) < 6:
            self.samples.append(s)

    def violation(self, sig, replay_obj):
        """Record a violation: known finding -> KNOWN-FINDING line; else replay file + VIOLATION."""
        with self.lock:
            k = match_known(self.pid, sig)
            if k is not None:
                line = "KNOWN-FINDING: property=%s %s" % (self.pid, k.get("what", ""))
                if line not in self.known:
                    self.known.append(line)
                    print(line, flush=True)
                return
            if len(self.violations) >= self.max_files:
                self.violations.append({"sig": sig, "replay": None})
                return
            self.nviol_files += 1
            path = os.path.join(OUT, "replays", "%s-%s-%d.json" % (self.pid, self.tier, self.nviol_files))
            replay_obj = dict(replay_obj)
            replay_obj["property"] = self.pid
            replay_obj["sig"] = sig
            with open(path, "w") as f:
                json.dump(replay_obj, f, indent=1)
            self.violations.append({"sig": sig, "replay": path})
            print("VIOLATION property=%s replay=%s" % (self.pid, path), flush=True)
            log("  violation detail:", json.dumps(sig)[:1500])

    def too_many(self):
        return len(self.violations) >= self.max_files

    # -- finishing ------------------------------------------------------------------
    def finish(self, rule, level="model_checking"):
        cov = {
            "states": max(self.states, 0),
            "transitions": max(self.transitions, 0),
            "traces_validated_against_impl": self.traces,
            "events_validated": self.events,
            "transitions_replayed_on_impl": self.replayed,
            "samples": self.samples if self.samples else ["(none)"],
            "models": self.models,
            "rule": rule,
            "known_findings_reported": self.known,
        }
        if self.exhaustive is not None:
            cov["exhaustive"] = self.exhaustive
        st = os.path.join(OUT, "selftest.json")
        if os.path.exists(st):
            try:
                with open(st) as f:
                    j = json.load(f)
                cov["binding_selftest"] = {"ok": j.get("ok"), "cases": len(j.get("cases", [])),
                                           "meaning": "bin/selftest (run by setup): each trace specification rejects a recorded trace "
                                                      "with one corrupted field, and accepts the replay of every repaired defect"}
            except Exception:
                pass
        cov.update(self.extra)
        ev = {
            "property_id": self.pid,
            "tier": self.tier,
            "seed": self.seed,
            "level": level,
            "coverage": cov,
            "assumptions": self.assumptions,
            "wall_s": round(time.time() - self.t0, 2),
            "violations": len(self.violations),
        }
        os.makedirs(EVIDENCE, exist_ok=True)
        with open(os.path.join(EVIDENCE, self.pid + ".json"), "w") as f:
            json.dump(ev, f, indent=1)
        log("[%s %s] states=%d transitions=%d traces=%d events=%d violations=%d wall=%.1fs" % (
            self.pid, self.tier, self.states, self.transitions, self.traces, self.events,
            len(self.violations), ev["wall_s"]))
        return 1 if self.violations else 0
