"""Per-property checks. Each function takes a vlib.Ctx and returns the exit code."""
import json
import os
import random
from concurrent.futures import ThreadPoolExecutor

import vlib
import sessions
from vlib import log

CHECKS = {}


def check(pid):
    def deco(fn):
        CHECKS[pid] = fn
        return fn
    return deco


def utf8(cp):
    return list(chr(cp).encode("utf-8"))


def utf8s(cps):
    out = []
    for c in cps:
        out += utf8(c)
    return out


# scalars of every encoded length, at the boundaries of the lengths
CH1 = [0x61, 0x20, 0x7E, 0x22, 0x5C, 0x2D]
CH2 = [0xE9, 0x80, 0x7FF, 0x436]
CH3 = [0x4E2D, 0x800, 0xFFFF, 0xD7FF, 0xE000, 0x20AC]
CH4 = [0x1F600, 0x10000, 0x10FFFF]
# scalars at the boundaries of the second-octet ranges of Table 3-7 (E0 A0..BF, ED 80..9F, F0 90..BF, F4 80..8F)
# and of the neighbouring lead bytes
EDGE = [0x0800, 0x0FBF, 0x0FC0, 0x0FFF, 0x1000, 0xCFFF, 0xD000, 0xD7FF, 0xE000, 0xFFFF,
        0x10000, 0x10FFF, 0x3F000, 0x3FFFF, 0x40000, 0xFFFFF, 0x100000, 0x10FFFF, 0x80, 0xBF, 0xC0, 0x7FF]
# Unicode look-alikes of the characters the command line gives a meaning to: white space other than U+0020,
# dashes other than U+002D, quotes and backslashes other than U+0022 / U+005C, full-width letters. For the
# library (and the specification) they are ordinary characters.
LOOK = [0xA0, 0x1680, 0x2003, 0x2009, 0x2028, 0x3000, 0x2010, 0x2013, 0x2212, 0xFF0D, 0x201C, 0x201D, 0xFF02, 0xFF3C, 0xFF48]
ALLCH = CH1 + CH2 + CH3 + CH4 + EDGE + LOOK


def spellings(t):
    """near-miss spellings of a token: other letter cases, full-width letters, other dashes"""
    out = {t.upper(), t.capitalize(), t.swapcase(), t.title(),
           "".join(chr(ord(c) + 0xFEE0) if "!" <= c <= "~" else c for c in t),
           t.replace("-", "\u2013"), t.replace("-", "\u2212", 1), t.replace("-", "\uff0d")}
    out.discard(t)
    return sorted(out)


# ---------------------------------------------------------------------------------------
# generic: validate module-level records, reporting violations and continuing after them

def validate_mod(ctx, rec_path, label, max_viol=5, count_traces=True, spec="ModTrace", env=None):
    """Validate records with ModTrace. On a rejection, report it and go on with the rest."""
    total = vlib.count_lines(rec_path)
    offset = 0
    path = rec_path
    nviol = 0
    while True:
        res = vlib.tlc_validate(ctx.workdir, spec, path, env)
        if res["accepted"]:
            break
        n = res["n_accepted"] + 1          # 1-based index in `path`
        line = vlib.nth_line(path, n)
        rec = json.loads(line)
        sig = {"kind": rec.get("m"), "conjunct": (res["failed_tags"] or ["?"])[-1], "input": mod_input(rec)}
        ctx.violation(sig, {"kind": "mod", "request": mod_request(rec), "record": rec,
                            "failed": res["failed_tags"], "detail": res["detail"], "label": label})
        nviol += 1
        offset += n
        if nviol >= max_viol or offset >= total or ctx.too_many():
            break
        rest = os.path.join(ctx.workdir, "%s.rest%d.ndjson" % (label, nviol))
        with open(path) as f, open(rest, "w") as g:
            for i, l in enumerate(f, 1):
                if i > n:
                    g.write(l)
        path = rest
    if count_traces:
        ctx.traces += total
        ctx.events += total
    return nviol


def mod_input(rec):
    m = rec.get("m")
    if m in ("dec", "accum"):
        return rec["bytes"]
    if m == "editor":
        return {"cap": rec["cap"], "ops": rec["ops"]}
    if m == "history":
        return {"hcap": rec["hcap"], "ops": rec["ops"]}
    if m == "tokens":
        return rec["line"]
    if m == "args":
        return rec["toks"]
    if m == "scalar":
        return rec["cp"]
    if m == "parse":
        return {"decl": rec["decl"], "via": rec.get("via"), "line": [bytes(t).decode("utf-8", "replace") for t in rec["toks"]]}
    return None


def mod_request(rec):
    m = rec.get("m")
    if m in ("dec", "accum"):
        return {"m": m, "bytes": rec["bytes"]}
    if m == "editor":
        return {"m": m, "cap": rec["cap"], "ops": rec["ops"]}
    if m == "history":
        return {"m": m, "hcap": rec["hcap"], "ops": rec["ops"]}
    if m == "tokens":
        return {"m": m, "line": rec["line"]}
    if m == "args":
        return {"m": m, "toks": rec["toks"]}
    if m == "scalar":
        return {"m": "scalar_range", "lo": rec["cp"], "hi": rec["cp"] + 1}
    if m == "parse":
        return {"m": "parse", "decl": rec["decl"], "toks": rec["toks"], "via": rec.get("via", "parse"),
                "types": sorted({c["ty"] for c in rec.get("conv", [])})}
    return rec


def run_mod(ctx, vh, requests, label, shards=1, max_viol=5, spec="ModTrace", env=None):
    """Run module requests on the real code and validate the records (sharded, parallel)."""
    rec, p = vlib.vh_mod(vh, ctx.workdir, requests, label)
    if p.returncode != 0:
        # the code under test crashed: find the request by bisection-free rerun one by one
        crash_mod(ctx, vh, requests, label, p)
        return
    n = vlib.count_lines(rec)
    if n == 0:
        return
    ctx.replayed += n
    with open(rec) as f:
        first = f.readline()
    ctx.sample({"record": json.loads(first)} if len(first) < 3000 else {"record_prefix": first[:600]})
    if shards <= 1 or n < 2000:
        validate_mod(ctx, rec, label, max_viol, spec=spec, env=env)
        return
    # split
    per = (n + shards - 1) // shards
    files = []
    with open(rec) as f:
        for s in range(shards):
            pth = os.path.join(ctx.workdir, "%s.shard%d.ndjson" % (label, s))
            cnt = 0
            with open(pth, "w") as g:
                for l in f:
                    g.write(l)
                    cnt += 1
                    if cnt >= per:
                        break
            if cnt:
                files.append(pth)
    with ThreadPoolExecutor(max_workers=min(len(files), 12)) as ex:
        list(ex.map(lambda pth: validate_mod(ctx, pth, os.path.basename(pth), max_viol, spec=spec, env=env), files))
    for pth in files:
        os.remove(pth)


def crash_mod(ctx, vh, requests, label, p):
    """Attribute a crash of the code under test to one request (run them one at a time)."""
    log("[crash] vh mod exited %d; locating the request" % p.returncode)
    for r in requests:
        rec, q = vlib.vh_mod(vh, ctx.workdir, [r], label + ".crash")
        if q.returncode != 0:
            ctx.violation({"kind": "crash", "conjunct": "no panic / abort", "input": r},
                          {"kind": "mod", "request": r, "output": q.stdout[-3000:], "label": label})
            return
    raise vlib.ToolError("vh mod failed but no single request reproduces it:\n" + p.stdout[-3000:])


# ---------------------------------------------------------------------------------------
# CLI-level: run session scripts on the real Cli, validate the recorded trace with CliTrace

def exec_scripts(ctx, vh, scripts, label, focus, raw=False):
    """Run scripts through `vh cli`; returns path of the trace. A crash (abort / signal) of the
    code under test is attributed to its session; the remaining scripts are then run too."""
    trace = os.path.join(ctx.workdir, label + ".trace.ndjson")
    open(trace, "w").close()
    todo = scripts
    part = 0
    while todo:
        part += 1
        sp = os.path.join(ctx.workdir, "%s.scripts%d.ndjson" % (label, part))
        tp = os.path.join(ctx.workdir, "%s.trace%d.ndjson" % (label, part))
        with open(sp, "w") as f:
            for sc in todo:
                f.write(json.dumps(sc, separators=(",", ":")) + "\n")
        import subprocess
        p = subprocess.run([vh, "cli", sp, tp] + (["--raw"] if raw else []), stdout=subprocess.PIPE, stderr=subprocess.PIPE, text=True, timeout=3600)
        with open(tp) as f, open(trace, "a") as g:
            for l in f:
                g.write(l)
        os.remove(tp)
        os.remove(sp)
        if p.returncode == 0:
            break
        # crashed: last BEGIN without END
        begun = None
        for l in p.stderr.splitlines():
            if l.startswith("BEGIN "):
                begun = int(l.split()[1])
            elif l.startswith("END "):
                begun = None
        if begun is None:
            raise vlib.ToolError("vh cli failed without an open session:\n" + p.stderr[-3000:])
        idx = next(i for i, sc in enumerate(todo) if sc["sid"] == begun)
        msg = "\n".join(l for l in p.stderr.splitlines() if not l.startswith(("BEGIN", "END")))[-1500:]
        if focus in ("C03", "C14", "ALL"):
            ctx.violation({"kind": "crash", "conjunct": "no panic / abort", "input": compact_script(todo[idx])},
                          {"kind": "cli", "focus": focus, "script": todo[idx], "crash": msg, "exit": p.returncode})
        else:
            log("[crash ignored under focus %s] session %d: %s" % (focus, begun, msg[-300:]))
        ctx.extra["crashed_sessions"] = ctx.extra.get("crashed_sessions", 0) + 1
        todo = todo[idx + 1:]
    return trace


def compact_script(sc):
    """Short signature of a script: config + the bytes / calls"""
    out = []
    for st in sc["steps"]:
        if st["ev"] == "byte":
            out.append(st["b"])
        elif st["ev"] == "write":
            out.append("write")
        else:
            out.append("prompt%d" % st["p"])
    return {"cmd": sc["cfg"].get("cmd"), "hcap": sc["cfg"].get("hcap"), "set": sc["cfg"].get("set"), "steps": out}


def split_sessions(trace, nshards, workdir, label, focus, ctx):
    """Split a trace into shards at session boundaries; strip panic records (reported for C03/C14)."""
    sessions = []
    cur = []
    with open(trace) as f:
        for l in f:
            if '"ev":"init"' in l:
                if cur:
                    sessions.append(cur)
                cur = [l]
            elif '"ev":"panic"' in l:
                rec = json.loads(l)
                if cur:
                    sid = json.loads(cur[0])["sid"]
                else:
                    sid = rec["sid"]
                cur.append(("PANIC", rec))
            else:
                cur.append(l)
    if cur:
        sessions.append(cur)
    return sessions


def validate_cli(ctx, vh, scripts, focus, label, shards=8, max_viol=6, raw=False):
    by_sid = {sc["sid"]: sc for sc in scripts}
    trace = exec_scripts(ctx, vh, scripts, label, focus, raw=raw)
    sessions = split_sessions(trace, shards, ctx.workdir, label, focus, ctx)
    os.remove(trace)
    clean = []
    for sess in sessions:
        lines = []
        for l in sess:
            if isinstance(l, tuple):
                rec = l[1]
                sc = by_sid.get(rec["sid"])
                if focus in ("C03", "C14", "ALL"):
                    ctx.violation({"kind": "panic", "conjunct": "no panic / abort", "msg": rec.get("msg", "")[:200],
                                   "input": compact_script(sc) if sc else None},
                                  {"kind": "cli", "focus": focus, "script": sc, "panic": rec})
                else:
                    log("[panic ignored under focus %s] session %s: %s" % (focus, rec["sid"], rec.get("msg", "")[:200]))
                ctx.extra["panicked_sessions"] = ctx.extra.get("panicked_sessions", 0) + 1
            else:
                lines.append(l)
        if lines:
            clean.append(lines)
    nev = sum(len(s) for s in clean)
    ctx.traces += len(clean)
    ctx.events += nev
    if clean:
        mid = clean[len(clean) // 2]
        ctx.sample({"trace_record": json.loads(mid[min(len(mid) - 1, 2)])})
    if not clean:
        return
    shards = max(1, min(shards, len(clean), max(1, nev // 3000)))
    buckets = [[] for _ in range(shards)]
    sizes = [0] * shards
    for sess in sorted(clean, key=len, reverse=True):
        i = sizes.index(min(sizes))
        buckets[i].append(sess)
        sizes[i] += len(sess)

    def work(k):
        sess_list = buckets[k]
        nv = 0
        while sess_list and nv < max_viol and not ctx.too_many():
            path = os.path.join(ctx.workdir, "%s.shard%d.ndjson" % (label, k))
            with open(path, "w") as f:
                for sess in sess_list:
                    f.writelines(sess)
            res = vlib.tlc_validate(ctx.workdir, "CliTrace", path, {"FOCUS": focus})
            os.remove(path)
            if res["accepted"]:
                return
            n = res["n_accepted"] + 1
            # locate session
            acc = 0
            for si, sess in enumerate(sess_list):
                if n <= acc + len(sess):
                    rec = json.loads(sess[n - acc - 1])
                    sc = by_sid.get(rec["sid"])
                    tag = (res["failed_tags"] or ["?"])[-1]
                    ctx.violation({"kind": "cli", "conjunct": tag, "focus": focus, "at": rec.get("i"),
                                   "input": compact_script(sc) if sc else None},
                                  {"kind": "cli", "focus": focus, "script": sc, "record": rec, "at": rec.get("i"),
                                   "failed": res["failed_tags"], "detail": res["detail"]})
                    sess_list = sess_list[si + 1:]
                    nv += 1
                    break
                acc += len(sess)
            else:
                raise vlib.ToolError("rejected record index out of range")

    with ThreadPoolExecutor(max_workers=min(shards, 12)) as ex:
        list(ex.map(work, range(shards)))


# ---------------------------------------------------------------------------------------
# design-level model of the whole CLI (MC_Cli) and its paths as session scripts

def mc_cli_cfg(c, emit=True):
    chars = "{%s}" % ", ".join(str(x) for x in c["Chars"])
    b = lambda v: "TRUE" if v else "FALSE"
    return ("SPECIFICATION Spec\nCONSTANTS\n  CmdCap = %d\n  HistCap = %d\n  Chars = %s\n  NameSet = \"%s\"\n"
            "  HistOn = %s\n  AcOn = %s\n  HelpOn = %s\n  WithApi = %s\nVIEW View\n%sINVARIANT Inv\nINVARIANT SyncInv\n"
            "PROPERTY EnterProp\nCHECK_DEADLOCK FALSE\n" % (
                c["CmdCap"], c["HistCap"], chars, c.get("NameSet", "tiny"), b(c.get("HistOn", True)),
                b(c.get("AcOn", True)), b(c.get("HelpOn", True)), b(c.get("WithApi", False)),
                "ACTION_CONSTRAINT Emit\n" if emit else ""))


def mc_bytes_scripts(ctx, rng, cmd, hcap, byteset, limit, sid0):
    """Byte-grain composite model (MC_CliBytes): one session script per explored transition."""
    cfg = ("SPECIFICATION Spec\nCONSTANTS\n  CmdCap = %d\n  HistCap = %d\n  Bytes0 = {%s}\nVIEW View\nACTION_CONSTRAINT Emit\n"
           "INVARIANT Inv\nPROPERTY QuietProp\nCHECK_DEADLOCK FALSE\n" % (cmd, hcap, ", ".join(str(b) for b in byteset)))
    res = vlib.tlc_mc(ctx.workdir, "MC_CliBytes", cfg, workers=6, timeout=1500)
    res["constants"] = {"CmdCap": cmd, "HistCap": hcap, "Bytes0": byteset}
    ctx.add_mc(res)
    paths = res["T"]
    ctx.extra["mc_clibytes_transitions_total"] = ctx.extra.get("mc_clibytes_transitions_total", 0) + len(paths)
    if limit is not None and len(paths) > limit:
        paths = rng.sample(paths, limit)
    ctx.replayed += len(paths)
    return [{"sid": sid0 + i, "cfg": {"cmd": cmd, "hcap": hcap, "set": "tiny", "prompt": 0},
             "steps": [{"ev": "byte", "b": b} for b in p]} for i, p in enumerate(paths)]


def mc_cli_only(ctx, consts, workers=8):
    """Design-level check only (no path emission): for instances too large to replay"""
    res = vlib.tlc_mc(ctx.workdir, "MC_Cli", mc_cli_cfg(consts, emit=False), workers=workers, timeout=2400, want_T=False)
    res["constants"] = consts
    ctx.add_mc(res)


def mc_cli_scripts(ctx, consts, rng, limit=None, sid0=1000000, workers=6):
    """Model-check MC_Cli for `consts`; return session scripts, one per explored transition
    (a shortest path to its source state followed by the event)."""
    res = vlib.tlc_mc(ctx.workdir, "MC_Cli", mc_cli_cfg(consts), workers=workers, timeout=1500)
    res["constants"] = consts
    ctx.add_mc(res)
    prompts = ["".join(chr(c) for c in p) for p in res["lines"]["P"][0]]
    pidx = [sessions.PROMPTS.index(p) for p in prompts]

    def conv_chunks(cs):
        return [{"m": c["m"], "t": utf8s(c["t"])} for c in cs]

    st = []
    for sc in res["lines"]["S"][0]:
        hs = {}
        if sc["chunks"]:
            hs["chunks"] = conv_chunks(sc["chunks"])
        if sc["setp"]:
            hs["p"] = sessions.PROMPTS.index("".join(chr(c) for c in sc["p"]))
        st.append(hs)
    wt = [conv_chunks(w) for w in res["lines"]["W"][0]]
    paths = res["T"]
    total = len(paths)
    # vacuity: every kind of event of the model must label some explored transition
    labels = sorted({(p[-1]["e"], p[-1]["k"]) for p in paths if p})
    want = {("key", k) for k in ("char", "bs", "left", "right", "up", "down", "tab", "enter")}
    if consts.get("WithApi"):
        want |= {("write", ""), ("prompt", "")}
    missing = want - set(labels)
    if missing:
        raise vlib.ToolError("MC_Cli explored no transition labelled %s (vacuous model)" % sorted(missing))
    ctx.extra["mc_cli_event_kinds_covered"] = ["%s:%s" % l for l in labels]
    if limit is not None and total > limit:
        paths = rng.sample(paths, limit)
    cfg = {"cmd": consts["CmdCap"], "hcap": consts["HistCap"], "set": consts.get("NameSet", "tiny"), "prompt": 0}
    scripts = [sessions.path_to_script(sid0 + i, p, cfg, st, wt, pidx) for i, p in enumerate(paths)]
    ctx.extra.setdefault("mc_cli_transitions_total", 0)
    ctx.extra["mc_cli_transitions_total"] += total
    ctx.extra.setdefault("mc_cli_transitions_replayed", 0)
    ctx.extra["mc_cli_transitions_replayed"] += len(paths)
    ctx.replayed += len(paths)
    if scripts:
        ctx.sample({"tlc_path": paths[len(paths) // 2]})
    return scripts


# ---------------------------------------------------------------------------------------
# model-derived requests

def editor_cfg(cap, chars):
    return ("SPECIFICATION Spec\nCONSTANTS\n  Cap = %d\n  Chars = {%s}\nVIEW View\nACTION_CONSTRAINT Emit\n"
            "INVARIANT Inv\nPROPERTY StepProp\nCHECK_DEADLOCK FALSE\n" % (cap, ", ".join(map(str, chars))))


def editor_requests(ctx, caps, chars):
    reqs = []
    for cap in caps:
        res = vlib.tlc_mc(ctx.workdir, "MC_Editor", editor_cfg(cap, chars), workers=4)
        res["constants"] = {"Cap": cap, "Chars": chars}
        ctx.add_mc(res)
        for path in res["T"]:
            ops = [{"o": "ins", "t": utf8(o["c"])} if o["o"] == "ins" else {"o": o["o"]} for o in path]
            reqs.append({"m": "editor", "cap": cap, "ops": ops})
    return reqs


def history_cfg(hcap, law=False, maxsubs=0):
    if law:
        return ("SPECIFICATION Spec\nCONSTANTS\n  HCap = %d\n  MaxSubs = %d\nVIEW ViewLaw\nCONSTRAINT Bound\n"
                "INVARIANT Inv\nINVARIANT Law\nCHECK_DEADLOCK FALSE\n" % (hcap, maxsubs))
    return ("SPECIFICATION Spec\nCONSTANTS\n  HCap = %d\n  MaxSubs = 0\nVIEW View\nACTION_CONSTRAINT Emit\n"
            "INVARIANT Inv\nPROPERTY NavProp\nCHECK_DEADLOCK FALSE\n" % hcap)


def history_requests(ctx, hcaps):
    reqs = []
    for hcap in hcaps:
        res = vlib.tlc_mc(ctx.workdir, "MC_History", history_cfg(hcap), workers=4)
        res["constants"] = {"HCap": hcap}
        ctx.add_mc(res)
        for path in res["T"]:
            ops = [{"o": "push", "t": utf8s(o["t"])} if o["o"] == "push" else {"o": o["o"]} for o in path]
            reqs.append({"m": "history", "hcap": hcap, "ops": ops})
    return reqs


# ---------------------------------------------------------------------------------------
# C04 decoder

UNITS = None


def key_units():
    """Key units of C04's grammar as byte strings (the drivers' alphabet)."""
    global UNITS
    if UNITS is None:
        u = {}
        for cp in [0x61, 0x7E, 0x20, 0x5B, 0x80, 0x7FF, 0x800, 0xD7FF, 0xE000, 0xFFFF, 0x10000, 0x10FFFF, 0x436, 0x4E2D, 0x1F600,
                   0x0FFF, 0x1000, 0x3FFFF, 0x40000, 0x100000]:
            u["c%X" % cp] = utf8(cp)
        u.update({"cr": [13], "lf": [10], "crlf": [13, 10], "lfcr": [10, 13], "bs": [8], "tab": [9],
                  "up": [27, 91, 65], "down": [27, 91, 66], "right": [27, 91, 67], "left": [27, 91, 68],
                  "up-p": [27, 91, 49, 59, 53, 65], "left-i": [27, 91, 63, 32, 47, 68],
                  "csi~": [27, 91, 51, 126], "csi@": [27, 91, 64], "csiE": [27, 91, 69], "csi[": [27, 91, 91],
                  "csi-long": [27, 91] + list(range(0x30, 0x40)) + list(range(0x20, 0x30)) + [0x48],
                  "csi-300-left": [27, 91] + [0x31] * 300 + [68], "csi-255-up": [27, 91] + [0x3B] * 255 + [65],
                  "csi-256-other": [27, 91] + [0x30] * 256 + [0x7E],
                  "esc": [27], "nul": [0], "bel": [7], "us": [31], "vt": [11], "ff": [12]})
        UNITS = u
    return UNITS


def in_unit_grammar(bs):
    """Is the byte string a concatenation of C04's key units (a trailing incomplete unit allowed)?"""
    i = 0
    n = len(bs)
    while i < n:
        b = bs[i]
        if b == 27:
            if i + 1 < n and bs[i + 1] == 91:
                i += 2
                while i < n and 0x20 <= bs[i] <= 0x3F:
                    i += 1
                if i < n:
                    if not (0x40 <= bs[i] <= 0x7E):
                        return False
                    i += 1
            else:
                i += 1
        elif b < 0x80:
            i += 1
        else:
            ln = 2 if 0xC2 <= b <= 0xDF else 3 if 0xE0 <= b <= 0xEF else 4 if 0xF0 <= b <= 0xF4 else 0
            if ln == 0:
                return False
            chunk = bytes(bs[i:i + ln])
            if len(chunk) < ln:
                # incomplete at the end: must still be a valid prefix
                for cp in (0x80, 0x7FF, 0x800, 0xFFFF, 0xD7FF, 0xE000, 0x10000, 0x10FFFF, 0x1000, 0x40000, 0x100000):
                    pass
                try:
                    chunk.decode("utf-8")
                except UnicodeDecodeError as e:
                    if e.reason != "unexpected end of data":
                        return False
                return True
            try:
                chunk.decode("utf-8")
            except UnicodeDecodeError:
                return False
            i += ln
    return True


def decoder_graph(ctx):
    res_g = vlib.tlc_mc(ctx.workdir, "MC_Decoder", "SPECIFICATION SpecGraph\nVIEW View\nACTION_CONSTRAINT Emit\nINVARIANT TypeInv\nCHECK_DEADLOCK FALSE\n")
    ctx.add_mc(res_g)
    return res_g["T"]


@check("C04")
def c04(ctx):
    vh = vlib.build_harness()
    rng = random.Random(ctx.seed)
    # (a) design level: unit grammar realised by Feed; closed byte-level graph
    res_u = vlib.tlc_mc(ctx.workdir, "MC_Decoder", "SPECIFICATION SpecUnits\nVIEW ViewUnits\nINVARIANT TypeInv\nCHECK_DEADLOCK FALSE\n", want_T=False)
    ctx.add_mc(res_u)
    if ctx.tier == "thorough":
        # all 256 byte values, unbounded runs: the decoder's structural invariant is inductive (Apalache)
        mod = os.path.join(vlib.SPECS, "apalache", "DecoderInd.tla")
        base = vlib.apalache_check(ctx.workdir, mod, ["--init=Init", "--inv=IndInv", "--length=0"])
        step = vlib.apalache_check(ctx.workdir, mod, ["--init=IndInit", "--inv=IndInv", "--length=1"])
        ctx.extra["apalache_inductive_invariant"] = {"module": "apalache/DecoderInd.tla", "base": base, "step": step,
                                                     "meaning": "decoder control invariant inductive over all 256 byte values"}
        if not (base and step):
            raise vlib.ToolError("Apalache: the decoder invariant of the specification is not inductive (specification problem)")
        proved, total = vlib.tlapm_check(os.path.join(vlib.SPECS, "tlaps", "DecoderProof.tla"))
        ctx.extra["tlaps_proof"] = {"module": "tlaps/DecoderProof.tla", "obligations": total, "discharged": proved,
                                    "theorems": ["Init => IndInv", "IndInv /\\ [Next]_vars => IndInv'"]}
        if proved != total:
            raise vlib.ToolError("TLAPS: %d of %d obligations of DecoderProof not discharged (specification problem)" % (total - proved, total))
    paths = decoder_graph(ctx)
    # (b) every transition of the closed graph that lies within C04's unit grammar replayed
    # on the real InputGenerator (the others are C02's: see there)
    gpaths = [p for p in paths if in_unit_grammar(p)]
    ctx.extra["graph_transitions_in_unit_grammar"] = len(gpaths)
    reqs = [{"m": "dec", "bytes": p} for p in gpaths]
    ctx.sample({"tlc_path_bytes": gpaths[len(gpaths) // 2]})
    # all sequences of key units up to a bound
    units = key_units()
    long_units = sorted(n for n in units if len(units[n]) > 100)
    names = sorted(n for n in units if n not in long_units)
    maxlen = 2 if ctx.tier == "quick" else 3
    seqs = [[]]
    frontier = [[]]
    for _ in range(maxlen):
        frontier = [s + [n] for s in frontier for n in names]
        seqs += frontier
    # escape sequences with hundreds of parameter bytes, between other units
    seqs += [[a, l, b] for l in long_units for a in ("cr", "c61", "up") for b in ("lf", "c5B", "c61")]
    for s in seqs:
        b = []
        for n in s:
            b += units[n]
        reqs.append({"m": "dec", "bytes": b})
    # (c) long random concatenations of units, plus arbitrary bytes
    nrand = 300 if ctx.tier == "quick" else 6000
    for _ in range(nrand):
        b = []
        for _ in range(rng.randint(5, 60)):
            b += units[rng.choice(names)]
        reqs.append({"m": "dec", "bytes": b})
    ctx.extra["unit_sequences_enumerated"] = len(seqs)
    ctx.extra["unit_kinds"] = len(names)
    ctx.exhaustive = False
    run_mod(ctx, vh, reqs, "dec", shards=8 if ctx.tier == "thorough" else 4)
    # the same unit streams through Cli::process_byte: effect on the line and on dispatch
    scripts = []
    sid = 1
    pool = [s for s in seqs if s] + [[rng.choice(names) for _ in range(rng.randint(3, 30))] for _ in range(300 if ctx.tier == "quick" else 8000)]
    if ctx.tier == "quick":
        pool = rng.sample(pool, min(len(pool), 1200))
    for s in pool:
        b = []
        for n in s:
            b += units[n]
        scripts.append({"sid": sid, "cfg": {"cmd": rng.choice([2, 8, 32]), "hcap": rng.choice([0, 16]), "set": "raw", "prompt": 0},
                        "steps": [{"ev": "byte", "b": x} for x in b] + [{"ev": "byte", "b": 13}]})
        sid += 1
    # every transition (quick: a seeded sample) of the byte-grain composite model
    bset = [97, 195, 169, 13, 10, 27, 91, 65, 68, 8, 9, 0] if ctx.tier == "quick" else [97, 195, 169, 13, 10, 27, 91, 65, 66, 68, 8, 9, 0, 49]
    scripts += mc_bytes_scripts(ctx, rng, 2, 3, bset, 2500 if ctx.tier == "quick" else 150000, 5000001)
    crit = [[13], [10], [9], [27], [91], [67], [27, 91, 65], [27, 91, 49, 59, 53, 68], [0xC3, 0xA9], [97], [8]]
    fr = [[]]
    for _ in range(3 if ctx.tier == "quick" else 4):
        fr = [x + [u] for x in fr for u in range(len(crit))]
        for sq in fr:
            b = [97]
            for u in sq:
                b += crit[u]
            scripts.append({"sid": sid, "cfg": {"cmd": 16, "hcap": 16, "set": "raw", "prompt": 0},
                            "steps": [{"ev": "byte", "b": x} for x in b + [98, 13]]})
            sid += 1
    validate_cli(ctx, vh, scripts, "C04", "c04", shards=12)
    return ctx.finish("closed state graph of Decoder over 46 boundary bytes: every (state, byte) transition replayed on "
                      "InputGenerator via its shortest path; all sequences of <= %d key units over %d unit kinds; random unit "
                      "and byte streams; every record validated by TLC against Decoder!Feed (distinct = TLC distinct states)" % (maxlen, len(names)))


# ---------------------------------------------------------------------------------------
# C05 editor (module level part)

def random_editor_reqs(rng, n, caps):
    reqs = []
    for _ in range(n):
        cap = rng.choice(caps)
        ops = []
        for _ in range(rng.randint(5, 80)):
            r = rng.random()
            if r < 0.5:
                k = rng.choice([1, 1, 1, 2, 3])
                ops.append({"o": "ins", "t": utf8s([rng.choice(ALLCH) for _ in range(k)])})
            elif r < 0.65:
                ops.append({"o": "bs"})
            elif r < 0.8:
                ops.append({"o": "left"})
            elif r < 0.92:
                ops.append({"o": "right"})
            elif r < 0.97:
                ops.append({"o": "remove"})
            else:
                ops.append({"o": "clear"})
        reqs.append({"m": "editor", "cap": cap, "ops": ops})
    return reqs


@check("C05")
def c05(ctx):
    vh = vlib.build_harness()
    rng = random.Random(ctx.seed)
    caps = [0, 1, 2, 3, 4] if ctx.tier == "quick" else [0, 1, 2, 3, 4, 5, 6, 7]
    chars = [0x61, 0xE9, 0x4E2D, 0x1F600]
    reqs = editor_requests(ctx, caps, chars)
    ctx.sample({"tlc_path": reqs[len(reqs) // 2]})
    reqs += random_editor_reqs(rng, 300 if ctx.tier == "quick" else 8000, [0, 1, 2, 3, 4, 5, 8, 13, 16, 31, 64])
    run_mod(ctx, vh, reqs, "editor", shards=8)
    # the same through the real Cli: every transition of the composite model, and random sessions
    q = ctx.tier == "quick"
    scripts = []
    for consts in ([dict(SMALL, WithApi=False)] if q else [dict(MED, WithApi=False)]):
        scripts += mc_cli_scripts(ctx, consts, rng, limit=1500 if q else 100000, sid0=len(scripts) + 1)
    prof = {"cmd": [0, 1, 2, 3, 4, 5, 6, 7, 8, 16, 64], "hcap": [0, 4, 16], "sets": ALLSETS, "steps": (10, 80),
            "alphabet": ALLCH + sessions.W1, "w": {"char": 40, "bs": 14, "left": 14, "right": 10, "up": 3, "down": 2, "tab": 3, "enter": 3, "word": 3}}
    scripts += sessions.gen_sessions(rng, 600 if q else 20000, prof, sid0=len(scripts) + 1)
    # lines of more than 255 characters (counters must not be narrower than the buffer)
    for k in range(3 if q else 60):
        n = rng.choice([256, 257, 260] if q else [255, 256, 257, 260, 300, 513])
        chars = [rng.choice([0x61, 0x62, 0xE9, 0x4E2D]) for _ in range(n)]
        items = ["".join(chr(c) for c in chars)] + ["<left>"] * rng.randint(1, 12) + ["<right>"] * 14 + ["X", "<bs>", "<bs>", "<left>", "<right>", "<right>", "Y", "<enter>"]
        scripts.append({"sid": 6000001 + k, "cfg": {"cmd": rng.choice([600, 1024, 2100]), "hcap": rng.choice([0, 700]), "set": "raw", "prompt": 0},
                        "steps": scen(items)})
    tabs = c11_systematic(ctx)
    for x in tabs:
        x["steps"] = x["steps"] + scen(["<right>", "x", "<left>", "<bs>"])
    scripts += tabs if not q else rng.sample(tabs, min(len(tabs), 800))
    validate_cli(ctx, vh, scripts, "C05", "c05", shards=12)
    return ctx.finish("closed state graph of Editor for every buffer size in %s over one character of each UTF-8 length, every "
                      "transition replayed on the real Editor through its shortest path; random edit sessions at sizes up to 64" % caps)


# ---------------------------------------------------------------------------------------
# C10 history (module level part)

def random_history_reqs(rng, n, hcaps):
    pool = [[0x61], [0x62], [0x61, 0x62], [0xE9], [0x4E2D], [0x61, 0x1F600], [], [0x63, 0x64, 0x65], [0x20],
            [0x61, 0x20, 0x62], [0x436, 0x436], list(range(0x61, 0x61 + 12))]
    reqs = []
    for _ in range(n):
        hcap = rng.choice(hcaps)
        ops = []
        for _ in range(rng.randint(5, 60)):
            r = rng.random()
            if r < 0.45:
                if rng.random() < 0.8:
                    t = rng.choice(pool)
                else:
                    t = [rng.choice(ALLCH) for _ in range(rng.randint(0, 10))]
                t = [c for c in t if c != 0]
                ops.append({"o": "push", "t": utf8s(t)})
            elif r < 0.78:
                ops.append({"o": "older"})
            else:
                ops.append({"o": "newer"})
        reqs.append({"m": "history", "hcap": hcap, "ops": ops})
    return reqs


@check("C10")
def c10(ctx):
    vh = vlib.build_harness()
    rng = random.Random(ctx.seed)
    hcaps = [0, 1, 2, 3, 4, 5, 6] if ctx.tier == "quick" else list(range(0, 13))
    # retention law at spec level
    for hcap, ms in ([(3, 5), (6, 5)] if ctx.tier == "quick" else [(0, 6), (1, 6), (2, 6), (5, 6), (7, 6), (9, 6)]):
        r = vlib.tlc_mc(ctx.workdir, "MC_History", history_cfg(hcap, law=True, maxsubs=ms), workers=8, want_T=False)
        r["constants"] = {"HCap": hcap, "MaxSubs": ms, "law": True}
        ctx.add_mc(r)
    if ctx.tier == "thorough":
        # unbounded buffer size: the retention invariant is inductive (Apalache, symbolic)
        mod = os.path.join(vlib.SPECS, "apalache", "HistoryInd.tla")
        base = vlib.apalache_check(ctx.workdir, mod, ["--cinit=ConstInit", "--init=Init", "--inv=IndInv", "--length=0"])
        step = vlib.apalache_check(ctx.workdir, mod, ["--cinit=ConstInit", "--init=IndInit", "--inv=IndInv", "--length=1"])
        ctx.extra["apalache_inductive_invariant"] = {"module": "apalache/HistoryInd.tla", "base": base, "step": step,
                                                     "meaning": "sum of entry costs <= HCap is inductive for arbitrary HCap (histories of <= 6 entries)"}
        if not (base and step):
            raise vlib.ToolError("Apalache: the retention invariant of the specification is not inductive (specification problem)")
    reqs = history_requests(ctx, hcaps)
    ctx.sample({"tlc_path": reqs[len(reqs) // 2]})
    reqs += random_history_reqs(rng, 300 if ctx.tier == "quick" else 8000, [0, 1, 2, 3, 4, 5, 7, 8, 11, 16, 33, 64])
    run_mod(ctx, vh, reqs, "history", shards=8)
    # through the real Cli: submissions and Up/Down at every point
    q = ctx.tier == "quick"
    scripts = []
    for consts in ([dict(SMALL, WithApi=False)] if q else [dict(MED, WithApi=False)]):
        scripts += mc_cli_scripts(ctx, consts, rng, limit=1500 if q else 100000, sid0=len(scripts) + 1)
    prof = {"cmd": [1, 2, 3, 5, 8, 16, 64], "hcap": [0, 1, 2, 3, 4, 5, 7, 9, 16, 33, 64], "sets": ["raw", "leds"], "steps": (20, 120),
            "alphabet": [0x61, 0x62, 0x63, 0xE9, 0x4E2D, 0x1F600], "enter_forms": ENTER_FORMS,
            "w": {"char": 30, "bs": 4, "left": 3, "right": 2, "up": 16, "down": 10, "tab": 1, "enter": 16, "word": 2, "space": 3}}
    scripts += sessions.gen_sessions(rng, 600 if q else 20000, prof, sid0=len(scripts) + 1)
    # large histories holding many short distinct lines; old ones submitted again; the whole history walked
    pool = [chr(c) for c in range(0x61, 0x7B)] + [chr(c) for c in range(0x430, 0x440)] + ["%d" % k for k in range(10, 60)]
    for _ in range(40 if q else 600):
        hcap = rng.choice([100, 128, 200, 256, 300])
        lines = rng.sample(pool, rng.randint(30, 70))
        items = []
        for ln in lines:
            items += [ln, "<enter>"]
        for ln in rng.sample(lines, 6):
            items += [ln, "<enter>"]
        items += ["<up>"] * rng.randint(3, 75) + ["<down>"] * rng.randint(0, 10) + ["<enter>"]
        scripts.append({"sid": len(scripts) + 1, "cfg": {"cmd": 16, "hcap": hcap, "set": "raw", "prompt": 0}, "steps": scen(items)})
    scripts += exact_fill_recall(ctx, 9500001)
    validate_cli(ctx, vh, scripts, "C10", "c10", shards=12)
    return ctx.finish("closed state graph of History for every buffer size in %s over a pool of 8 lines (multi-byte, empty, "
                      "never-fitting), every transition replayed on the real History; declarative retention law checked at "
                      "spec level; random sessions at sizes up to 64" % hcaps)


# ---------------------------------------------------------------------------------------
# C07 tokenizer, C08 arguments (module level part)

TOK_ALPHA = [0x61, 0x20, 0x22, 0x5C, 0x2D, 0xE9]


@check("C07")
def c07(ctx):
    vh = vlib.build_harness()
    rng = random.Random(ctx.seed)
    q = ctx.tier == "quick"
    r = vlib.tlc_mc(ctx.workdir, "MC_Tokenizer", "SPECIFICATION SpecLists\nCONSTANTS\n  MaxToks = 3\n  MaxLen = %d\n  MaxLine = 0\nINVARIANT RoundTrip\nCHECK_DEADLOCK FALSE\n" % (2 if q else 3), workers=8, want_T=False)
    ctx.add_mc(r)
    r = vlib.tlc_mc(ctx.workdir, "MC_Tokenizer", "SPECIFICATION SpecLines\nCONSTANTS\n  MaxToks = 0\n  MaxLen = 0\n  MaxLine = %d\nINVARIANT LineInv\nCHECK_DEADLOCK FALSE\n" % (5 if q else 7), workers=8, want_T=False)
    ctx.add_mc(r)
    r = vlib.tlc_mc(ctx.workdir, "MC_TokenizerBuf", "SPECIFICATION Spec\nCONSTANT MaxLine = %d\nINVARIANT Inv\nCHECK_DEADLOCK FALSE\n" % (6 if q else 8), workers=8, want_T=False, timeout=1500)
    r["constants"] = {"MaxLine": 6 if q else 8, "what": "in-place tokenisation refines Tokenize; write position never overtakes read position"}
    ctx.add_mc(r)
    maxlen = 5 if q else 7
    reqs = [{"m": "tokens_enum", "alphabet": TOK_ALPHA, "maxlen": maxlen},
            # quoting next to characters of every encoded length, and next to the odd ASCII characters a line may hold
            {"m": "tokens_enum", "alphabet": [0x22, 0x5C, 0x1F600, 0x4E2D, 0x61, 0x20], "maxlen": 5 if q else 6},
            {"m": "tokens_enum", "alphabet": [0x61, 0x20, 0x22, 0x7F, 0x09, 0x01], "maxlen": 4 if q else 6},
            # white space other than U+0020, quotes other than U+0022: ordinary characters
            {"m": "tokens_enum", "alphabet": [0x61, 0x20, 0x22, 0x3000, 0xA0, 0x201C], "maxlen": 4 if q else 6}]
    # round trip on the code: every list of <= 3 strings of <= 2 (3) characters, rendered
    strs = [[]]
    fr = [[]]
    for _ in range(2 if q else 3):
        fr = [s + [c] for s in fr for c in ([0x61, 0x20, 0x22, 0x5C, 0xE9] if not q else TOK_ALPHA)]
        strs += fr
    lists = [[]] + [[a] for a in strs] + [[a, b] for a in strs for b in strs]
    if q:
        lists += [[a, b, c] for a in strs[:12] for b in strs[:12] for c in strs[:12]]
    else:
        lists += [[a, b, c] for a in strs[:40] for b in strs[:40] for c in strs[:40]]
    for l in lists:
        reqs.append({"m": "tokens", "line": utf8s(render(l))})
    for _ in range(300 if q else 20000):
        n = rng.randint(0, 60)
        line = [rng.choice(TOK_ALPHA + TOK_ALPHA + ALLCH) for _ in range(n)]
        reqs.append({"m": "tokens", "line": utf8s([c for c in line if c != 0])})
    ctx.extra["lines_enumerated"] = sum(len(TOK_ALPHA) ** k for k in range(maxlen + 1))
    ctx.extra["lists_rendered"] = len(lists)
    ctx.exhaustive = True
    ctx.extra["exhaustive_domain"] = "all lines of length <= %d over {a, space, quote, backslash, dash, e-acute}" % maxlen
    run_mod(ctx, vh, reqs, "tokens", shards=12)
    # the same rules through the real Cli: the handler must receive exactly the tokens of the line typed
    scripts = []
    sid = 1
    cli_lines = [render(l) for l in lists[: (400 if q else 6000)]]
    for _ in range(600 if q else 12000):
        n = rng.randint(1, 24)
        cli_lines.append([rng.choice(TOK_ALPHA + TOK_ALPHA + [0x62, 0x4E2D]) for _ in range(n)])
    for ln in cli_lines:
        steps = [{"ev": "byte", "b": b} for b in utf8s(ln)]
        # a few edits at the end of the line, so that the line submitted is not simply the line typed
        if rng.random() < 0.3:
            steps += [{"ev": "byte", "b": 8}] * rng.randint(1, 2)
        steps.append({"ev": "byte", "b": 13})
        r = rng.random()
        hcap = rng.choice([0, 16])
        if r < 0.25:
            # recalled from history and submitted again (possibly after an edit)
            hcap = 64
            steps += scen(["<up>"] + (["<left>", "<right>"] if rng.random() < 0.5 else []) + ["<enter>"])
        elif r < 0.35 and len(steps) > 2:
            # the echo of one character fails in the sink; the line is submitted afterwards
            k = rng.randrange(len(steps) - 1)
            steps[k] = dict(steps[k], fail={"at": 1, "mode": "once"})
        scripts.append({"sid": sid, "cfg": {"cmd": 64, "hcap": hcap, "set": "raw", "prompt": 0, "rawproc": rng.random() < 0.3}, "steps": steps})
        sid += 1
    # the echo of every quote (or of every backslash) fails in the sink, or the redraw of a recalled quoted line
    # fails: what is submitted afterwards is still tokenised by the quoting rules
    for ln in [l for l in cli_lines if 0x22 in l][: (150 if q else 3000)]:
        bs = utf8s(ln)
        for victim in (0x22, 0x5C):
            if victim not in bs:
                continue
            steps = [dict({"ev": "byte", "b": b}, **({"fail": {"at": 1, "mode": "once"}} if b == victim else {})) for b in bs]
            steps.append({"ev": "byte", "b": 13})
            scripts.append({"sid": sid, "cfg": {"cmd": 64, "hcap": 0, "set": "raw", "prompt": 0}, "steps": steps})
            sid += 1
        steps = [{"ev": "byte", "b": b} for b in bs] + [{"ev": "byte", "b": 13}]
        up = scen(["<up>"])
        up[-1]["fail"] = {"at": rng.randint(1, 5), "mode": "once"}
        steps += up + [{"ev": "byte", "b": 13}]
        scripts.append({"sid": sid, "cfg": {"cmd": 64, "hcap": 64, "set": "raw", "prompt": 0}, "steps": steps})
        sid += 1
    validate_cli(ctx, vh, scripts, "C07", "c07", shards=12)
    return ctx.finish("every line of length <= %d over 6 symbols through the real Tokens::new, each record validated by TLC "
                      "against Tokenizer!TokenizeSet; rendered lists (round trip) and random long lines; spec-level round-trip "
                      "law model-checked" % maxlen)


def render(lst):
    out = []
    for i, s in enumerate(lst):
        if i:
            out.append(0x20)
        out.append(0x22)
        for c in s:
            if c in (0x22, 0x5C):
                out.append(0x5C)
            out.append(c)
        out.append(0x22)
    return out


ARG_TOKENS = [[45, 45], [45, 45, 97], [45, 45, 0xE9], [45, 45, 45, 120], [45], [], [45, 97], [45, 97, 0xE9],
              [45, 0xE9, 0x4E2D, 0x1F600], [118], [97, 32, 98], [45, 104]]


@check("C08")
def c08(ctx):
    vh = vlib.build_harness()
    rng = random.Random(ctx.seed)
    q = ctx.tier == "quick"
    r = vlib.tlc_mc(ctx.workdir, "MC_Args", "SPECIFICATION Spec\nCONSTANTS\n  MaxToks = %d\nINVARIANT Inv\nCHECK_DEADLOCK FALSE\n" % (3 if q else 4), workers=8, want_T=False)
    ctx.add_mc(r)
    maxlen = 3 if q else 4
    reqs = [{"m": "args_enum", "tokens": [utf8s(t) for t in ARG_TOKENS], "maxlen": maxlen}]
    for _ in range(300 if q else 20000):
        toks = []
        for _ in range(rng.randint(0, 8)):
            kind = rng.random()
            if kind < 0.3:
                t = rng.choice(ARG_TOKENS)
            elif kind < 0.6:
                t = [45] + [rng.choice(ALLCH + [45]) for _ in range(rng.randint(0, 8))]
            elif kind < 0.8:
                t = [45, 45] + [rng.choice(ALLCH + [45]) for _ in range(rng.randint(0, 8))]
            else:
                t = [rng.choice(ALLCH + [45]) for _ in range(rng.randint(0, 8))]
            toks.append(utf8s(t))
        reqs.append({"m": "args", "toks": toks})
    ctx.extra["token_lists_enumerated"] = sum(len(ARG_TOKENS) ** k for k in range(maxlen + 1))
    ctx.exhaustive = True
    ctx.extra["exhaustive_domain"] = "all token lists of length <= %d over the 12 tokens of C08's alphabet" % maxlen
    run_mod(ctx, vh, reqs, "args", shards=8)
    # through the real Cli: every token quoted by Render, the handler's classified arguments validated by TLC
    scripts = []
    sid = 1
    lists = []
    for a in ARG_TOKENS:
        for b in ARG_TOKENS:
            lists.append([a, b])
            if not q:
                for c in ARG_TOKENS:
                    lists.append([a, b, c])
    for _ in range(300 if q else 6000):
        lists.append([rng.choice(ARG_TOKENS + [[45] + [rng.choice(ALLCH) for _ in range(rng.randint(1, 5))]]) for _ in range(rng.randint(1, 6))])
    for toks in lists:
        line = render([[0x63]] + toks)
        steps = [{"ev": "byte", "b": b} for b in utf8s(line)] + [{"ev": "byte", "b": 13}]
        scripts.append({"sid": sid, "cfg": {"cmd": 128, "hcap": 0, "set": "raw", "prompt": 0}, "steps": steps})
        sid += 1
    validate_cli(ctx, vh, scripts, "C08", "c08", shards=12)
    return ctx.finish("every token list of length <= %d over 12 tokens through the real ArgList/ArgsIter, each record validated "
                      "by TLC against Args!Classify and the Rejoin law; random lists with long mixed-width clusters" % maxlen)


# ---------------------------------------------------------------------------------------
# C17 scalars (module level part)

def scalar_ranges(tier, rng):
    if tier == "thorough":
        # everything, in shards
        edges = list(range(0x20, 0x110000, 0x8000)) + [0x110000]
        return [{"m": "scalar_range", "lo": a, "hi": b} for a, b in zip(edges, edges[1:])]
    out = []
    for c in [0x20, 0x7F, 0x80, 0x7FF, 0x800, 0xD7FF, 0xE000, 0xFFFF, 0x10000, 0x10FFFF] + EDGE:
        out.append({"m": "scalar_range", "lo": max(0x20, c - 16), "hi": min(0x110000, c + 17)})
    for _ in range(1500):
        c = rng.randrange(0x20, 0x110000)
        out.append({"m": "scalar_range", "lo": c, "hi": c + 8})
    return out


@check("C17")
def c17(ctx):
    vh = vlib.build_harness()
    rng = random.Random(ctx.seed)
    # spec level: Encode / Decode / WellFormed / streaming decoder agree on every scalar value
    if ctx.tier == "thorough":
        r = vlib.tlc_mc(ctx.workdir, "MC_Utf8", "SPECIFICATION SpecScalars\nINVARIANT ScalarInv\nCHECK_DEADLOCK FALSE\n", workers=2, want_T=False, timeout=1500)
        ctx.add_mc(r)
    r = vlib.tlc_mc(ctx.workdir, "MC_Utf8", "SPECIFICATION SpecBytes\nINVARIANT BytesInv\nCHECK_DEADLOCK FALSE\n", workers=8, want_T=False)
    ctx.add_mc(r)
    reqs = scalar_ranges(ctx.tier, rng)
    ctx.exhaustive = ctx.tier == "thorough"
    if ctx.exhaustive:
        ctx.extra["exhaustive_domain"] = "all 1,112,032 scalar values >= U+0020 (utility functions); U+007F included there"
    run_mod(ctx, vh, reqs, "scalar", shards=16, max_viol=3)
    # every scalar through the real Cli: typed between neighbours of other lengths, echoed, moved over,
    # deleted, retyped, submitted inside the command name, inside a value and as a short option, recalled
    if ctx.tier == "quick":
        cps = set()
        for c in [0x20, 0x7F, 0x80, 0x7FF, 0x800, 0xD7FF, 0xE000, 0xFFFF, 0x10000, 0x10FFFF] + EDGE:
            cps.update(range(max(0x20, c - 4), min(0x110000, c + 5)))
        cps.update(rng.randrange(0x20, 0x110000) for _ in range(500))
    else:
        cps = set(range(0x20, 0x110000, 41)) | set(range(0x20, 0x900)) | set(range(0xD700, 0xE100)) | set(range(0xFF00, 0x10100)) | set(range(0x10FF00, 0x110000))
    cps = sorted(c for c in cps if c != 0x7F and not (0xD800 <= c <= 0xDFFF))
    neigh = [0x61, 0xE9, 0x4E2D, 0x1F600]
    scripts = []
    L, R, BS = sessions.KEY_BYTES["left"], sessions.KEY_BYTES["right"], [8]
    for i, cp in enumerate(cps):
        a, b = neigh[i % 4], neigh[(i // 4 + 1) % 4]
        x = utf8(cp)
        bs = utf8(a) + x + utf8(b) + L + L + R + L + BS * 0 + R + BS + x      # move over it, delete it, retype it
        steps = [{"ev": "byte", "b": v} for v in bs]
        # the application writes / changes the prompt while the character is right of the cursor
        steps += [{"ev": "byte", "b": v} for v in L + L]
        steps.append({"ev": "write", "chunks": [{"m": "w", "t": x}]} if i % 2 == 0 else {"ev": "prompt", "p": 2})
        steps += [{"ev": "byte", "b": v} for v in R + R]
        bs = [32] + x + x + [32, 45] + (x if cp not in (0x68, 0x2D, 0x20) else [0x76]) + [32, 0x22] + utf8(a) + x + [0x22]
        bs += [13] + sessions.KEY_BYTES["up"] + [13]
        # recalled and edited: move inside, insert the character again, delete it, submit
        bs += sessions.KEY_BYTES["up"] + L + L + x + BS + R + x + [13]
        steps += [{"ev": "byte", "b": v} for v in bs]
        scripts.append({"sid": i + 1, "cfg": {"cmd": 64, "hcap": 64, "set": "raw", "prompt": 0}, "steps": steps})
        # as many 1-byte characters as the character has octets, then the character; delete the short ones
        # from behind it, walk to the end, go on typing
        w = len(x)
        bs2 = [0x61 + k for k in range(w)] + x + L + BS * w + R + R + [0x63] + L + L + [0x64, 13]
        scripts.append({"sid": 2000000 + i, "cfg": {"cmd": 64, "hcap": 0, "set": "raw", "prompt": 1},
                        "steps": [{"ev": "byte", "b": v} for v in bs2]})
    ctx.extra["scalars_through_cli"] = len(cps)
    validate_cli(ctx, vh, scripts, "C17", "c17", shards=14)
    # declared command names, option names and generated short options outside ASCII, through parsers derived
    # by the repository's macros (a declaration cannot be compiled per scalar value: the catalogue's `names`)
    by_id = load_catalogue()[1]
    dreqs = derive_requests(rng, ctx.tier, ["names"], by_id, False)
    ctx.extra["derived_lines_non_ascii_names"] = len(dreqs)
    run_mod(ctx, vh, dreqs, "c17d", shards=4, spec="DeriveTrace", env={"CATALOGUE": CATALOGUE, "FOCUS": "C09"})
    return ctx.finish("one record per scalar value with the library's encode_utf8, char_count, char_byte_index, char_pop_front "
                      "and common_prefix_len applied to it between neighbours of other encoded lengths, validated by TLC against "
                      "Utf8's operators; quick: +-16 around every length boundary and the surrogate gap plus a seeded sample")


# ---------------------------------------------------------------------------------------
# C02 well-formed UTF-8 (decoder level part)

def c02_decoder_level(ctx, vh_release):
    q = ctx.tier == "quick"
    maxlen = 4
    cfg = ("SPECIFICATION Spec\nCONSTANT MaxLen = %d\nACTION_CONSTRAINT Emit\nINVARIANT ClassInvariant\n"
           "INVARIANT EmitInv\nCHECK_DEADLOCK FALSE\n" % maxlen)
    res = vlib.tlc_mc(ctx.workdir, "MC_Utf8Classes", cfg, workers=8)
    ctx.add_mc(res)
    classes = res["lines"]["C"][0]
    expected = {tuple(t["cls"]): "".join(str(x) for x in t["pat"]) for t in res["T"]}
    class_of = []
    for b in range(128, 256):
        idx = [i for i, (lo, hi) in enumerate(classes, 1) if lo <= b <= hi]
        assert len(idx) == 1
        class_of.append(idx[0])
    reps = sorted({lo for lo, hi in classes} | {hi for lo, hi in classes})
    cj = os.path.join(ctx.workdir, "classes.json")
    with open(cj, "w") as f:
        json.dump({"class_of": class_of, "n": len(classes), "reps": reps}, f)
    total = 0
    mism = 0
    for ln in range(1, maxlen + 1):
        outp = os.path.join(ctx.workdir, "utf8x-%d.json" % ln)
        cmd = [vh_release, "utf8x", cj, str(ln), outp] + (["reps"] if q else [])
        p = vlib.sh(cmd, check=False, timeout=3600)
        if p.returncode != 0:
            ctx.violation({"kind": "crash", "conjunct": "no panic / abort", "input": "utf8x len %d" % ln},
                          {"kind": "utf8x", "len": ln, "output": p.stdout[-2000:]})
            continue
        with open(outp) as f:
            r = json.load(f)
        total += r["count"]
        for bad in r["bad"]:
            mism += 1
            ctx.violation({"kind": "accum", "conjunct": "emitted string is not the octets consumed / not valid UTF-8", "input": bad["seq"]},
                          {"kind": "mod", "request": {"m": "accum", "bytes": bad["seq"]}, "bad": bad})
        for e in r["table"]:
            want = expected.get(tuple(e["cls"]))
            if e["pats"] != [want]:
                mism += 1
                # a concrete witness: lowest representatives
                seq = [classes[c - 1][0] for c in e["cls"]]
                ctx.violation({"kind": "accum", "conjunct": "emission pattern differs from the specification", "input": seq},
                              {"kind": "mod", "request": {"m": "accum", "bytes": seq}, "class_sequence": e["cls"],
                               "expected_pattern": want, "observed_patterns": e["pats"]})
        os.remove(outp)
    ctx.extra["byte_sequences_fed_to_accumulator"] = total
    ctx.extra["class_sequences"] = len(expected)
    ctx.replayed += total
    ctx.exhaustive = not q
    ctx.extra["exhaustive_domain"] = ("all %d sequences of <= 4 bytes >= 0x80" % total) if not q else \
        "all sequences of <= 4 bytes over both boundary representatives of each of the 14 classes of bytes >= 0x80"
    ctx.sample({"class_sequence": [6, 3, 1], "expected_pattern": expected[(6, 3, 1)], "meaning": "E0 A0..BF 80..8F emits a 3-octet character at the third position"})
    return mism


@check("C02")
def c02(ctx):
    vh = vlib.build_harness()
    vhr = vlib.build_harness(release=True)
    rng = random.Random(ctx.seed)
    c02_decoder_level(ctx, vhr)
    # byte-level graph including ill-formed bytes, and random byte streams, through the decoder
    paths = decoder_graph(ctx)
    reqs = [{"m": "dec", "bytes": p} for p in paths]
    special = [13, 10, 27, 91, 65, 8, 9, 0xE2, 0x82, 0xAC, 0xC3, 0xA9, 0xF0, 0x9F, 0x98, 0x80, 0xC0, 0xE0, 0xED, 0xA0, 0xF4, 0x90, 0xF5, 0xFF]
    for _ in range(400 if ctx.tier == "quick" else 20000):
        reqs.append({"m": "dec", "bytes": [rng.choice([rng.randrange(256), rng.randrange(128, 256), rng.choice(special)]) for _ in range(rng.randint(1, 40))]})
        reqs.append({"m": "accum", "bytes": [rng.choice([rng.randrange(32, 256), rng.randrange(128, 256), rng.choice(special[7:])]) for _ in range(rng.randint(1, 40))]})
    run_mod(ctx, vh, reqs, "dec", shards=8)
    # CLI level: arbitrary byte streams (malformed, overlong, surrogate, out of range, truncated, mixed with
    # keys) through process_byte; every string handed out or echoed must be well-formed, octets that do not
    # complete a scalar change nothing and well-formed characters that follow are accepted
    prof = {"cmd": [1, 2, 3, 4, 5, 8, 16, 64], "hcap": [0, 3, 8, 16, 64], "sets": ALLSETS, "steps": (20, 120),
            "alphabet": ALLCH, "enter_forms": ENTER_FORMS, "partial": [0, 0, 5],
            "w": {"rawbyte": 50, "char": 25, "bs": 5, "left": 5, "right": 3, "up": 6, "down": 3, "tab": 4, "enter": 8, "word": 5, "ctl": 3, "csi": 2}}
    scripts = sessions.gen_sessions(rng, 500 if ctx.tier == "quick" else 20000, prof)
    # bias raw bytes towards the interesting ones
    for sc in scripts:
        for st in sc["steps"]:
            if st["ev"] == "byte" and st["b"] >= 0x80 and rng.random() < 0.5:
                st["b"] = rng.choice(special[7:])
    tabs = [x for x in c11_systematic(ctx) if x["cfg"]["set"] in ("mixed", "wide", "tiny")]
    hist_prof = {"cmd": [8, 16, 64], "hcap": [8, 12, 16, 24, 64], "sets": ["raw", "mixed"], "steps": (20, 90),
                 "alphabet": [0x61, 0x62, 0x444, 0x4E2D, 0x1F600, 0xE9], "enter_forms": ENTER_FORMS,
                 "w": {"char": 30, "space": 14, "bs": 3, "left": 2, "right": 1, "up": 16, "down": 8, "tab": 2, "enter": 18, "word": 3}}
    scripts += tabs + sessions.gen_sessions(rng, 400 if ctx.tier == "quick" else 15000, hist_prof, sid0=7000001)
    validate_cli(ctx, vh, scripts, "C02", "c02", shards=12)
    return ctx.finish("decoder level: TLC computes the emission pattern of every class sequence of <= 4 bytes >= 0x80 (14 classes, "
                      "class-invariance asserted on lowest/highest/alternating representatives); the real Utf8Accum is fed the "
                      "concrete sequences and must show exactly that pattern, return exactly the octets consumed, and satisfy "
                      "core::str::from_utf8; plus the closed decoder graph over 46 boundary bytes and random byte streams validated by TLC; "
                      "CLI level: random streams over all 256 byte values through process_byte, every line, history entry, handler "
                      "string and echoed byte sequence checked well-formed by TLC, and the effect of every byte on the line checked")


# ---------------------------------------------------------------------------------------
# CLI-level checks

SMALL = {"CmdCap": 2, "HistCap": 3, "Chars": [97, 233], "NameSet": "tiny"}
MED = {"CmdCap": 3, "HistCap": 4, "Chars": [97, 32, 233], "NameSet": "tiny"}
BIG = {"CmdCap": 4, "HistCap": 6, "Chars": [97, 98, 32, 233], "NameSet": "tiny"}
ENTER_FORMS = [[13], [13], [10], [13, 10], [10, 13]]
SIZES_CMD = [0, 1, 2, 3, 4, 5, 8, 13, 16, 40, 64]
SIZES_HIST = [0, 1, 2, 3, 5, 9, 16, 33, 64]
ALLSETS = ["leds", "mixed", "raw", "grouped", "tiny", "wide", "grouped2"]


def inject_faults(rng, scripts, share):
    """Give a share of the sessions one transient sink failure at a random call (the calls that follow run
    with a working sink again)."""
    out = []
    for sc in scripts:
        if sc["steps"] and rng.random() < share:
            sc = dict(sc, steps=[dict(st) for st in sc["steps"]])
            st = rng.choice(sc["steps"][: max(1, len(sc["steps"]) - 3)])
            st["fail"] = {"at": rng.randint(1, 4), "mode": rng.choice(["once", "once", "perm"])}
        out.append(sc)
    return out


def cli_property(ctx, focus, mc_consts, mc_limit, profiles, rule, shards=12, extra_scripts=None, models=(), typed=0, faults=0.0):
    vh = vlib.build_harness()
    rng = random.Random(ctx.seed)
    for module, cfg, consts in models:
        r = vlib.tlc_mc(ctx.workdir, module, cfg, workers=8, want_T=False, timeout=1500)
        r["constants"] = consts
        ctx.add_mc(r)
    scripts = []
    sid = 1
    for consts in mc_consts:
        if consts.get("NoEmit"):
            mc_cli_only(ctx, {k: v for k, v in consts.items() if k != "NoEmit"})
            continue
        sc = mc_cli_scripts(ctx, consts, rng, limit=mc_limit, sid0=sid)
        scripts += sc
        sid += len(sc)
    for n, prof in profiles:
        sc = sessions.gen_sessions(rng, n, prof, sid0=sid)
        scripts += sc
        sid += n
    if extra_scripts:
        scripts += extra_scripts
    if faults:
        scripts = inject_faults(rng, scripts, faults)
    if typed:
        # sessions whose processor is derived from a declaration of the catalogue (parse errors, help, sub-commands)
        scripts += typed_sessions(rng, typed, 8000001, load_catalogue()[1])
        ctx.extra["derived_processor_sessions"] = typed
    validate_cli(ctx, vh, scripts, focus, focus.lower(), shards=shards)
    ctx.extra["sessions"] = len(scripts)
    return ctx.finish(rule)


@check("C01")
def c01(ctx):
    q = ctx.tier == "quick"
    prof = {"cmd": SIZES_CMD, "hcap": SIZES_HIST, "sets": ALLSETS, "prompts": [0, 1, 2], "steps": (10, 70),
            "alphabet": ALLCH + sessions.W1, "enter_forms": ENTER_FORMS, "hs_out": 0.3, "hs_prompt": 0.2, "partial": [0, 0, 0, 3],
            "w": {"word": 12, "enter": 10, "quote": 4, "dash": 4, "space": 8}}
    prof["alphabet"] = prof["alphabet"] + [0x5B, 0x5B, 0x41, 0x42, 0x4F, 0x7E, 0x3B]
    tight = dict(prof, cmd=[0, 1, 2, 3], hcap=[0, 1, 2, 3], steps=(10, 40))
    # lines that are quoted renderings of short string lists (empty strings at every position)
    rngq = random.Random(ctx.seed + 1)
    strs = [[], [0x61], [0x20], [0x22], [0x61, 0x20], [0xE9]]
    qlists = [[a] for a in strs] + [[a, b] for a in strs for b in strs] + [[a, b, c] for a in strs[:4] for b in strs[:4] for c in strs[:4]]
    qscripts = []
    for i, l in enumerate(qlists):
        steps = [{"ev": "byte", "b": b} for b in utf8s(render([[0x63]] + l) if rngq.random() < 0.7 else render(l))] + [{"ev": "byte", "b": 13}]
        qscripts.append({"sid": 900001 + i, "cfg": {"cmd": 48, "hcap": 16, "set": "raw", "prompt": 0, "rawproc": i % 2 == 0}, "steps": steps})
    # lines that only look blank, only look like help requests, or only look quoted / dashed
    near = ["\u3000", "\u00a0\u00a0", " \u3000 ", "\u2003x\u2003", "go\u3000x", "\u2028", "\u1680 \u2009", "go \u00a0", "\u3000 \u3000 go"]
    near += [m for m in spellings("help")] + [m + " go" for m in spellings("help")]
    near += ["go " + m for m in spellings("--help") + spellings("-h")] + ["go x " + m + " y" for m in spellings("--help")[:3]]
    near += ["\u201ca b\u201d", "\uff02a b\uff02", "a\uff3c\" b", "\u2013x", "\u2212\u2212y"]
    for i, ln in enumerate(near):
        for j, set_id in enumerate(ALLSETS):
            qscripts.append({"sid": 950001 + i * 16 + j, "cfg": {"cmd": 48, "hcap": 32, "set": set_id, "prompt": 0, "rawproc": (i + j) % 3 == 0},
                             "steps": scen([ln, "<enter>", "<up>", "<left>", "<enter>", "ok", "<enter>"], {"chunks": [{"m": "w", "t": [111]}]})})
    return cli_property(ctx, "C01", extra_scripts=qscripts, mc_consts=
                        [dict(SMALL, WithApi=False)] if q else [dict(MED, WithApi=False), dict(BIG, WithApi=False, NoEmit=True)],
                        mc_limit=2000 if q else 150000,
                        profiles=[(700 if q else 20000, prof), (300 if q else 10000, tight)],
                        rule="every transition (quick: a seeded sample) of the closed MC_Cli graphs replayed on the real Cli through its "
                        "shortest path, and random sessions (all keys, all four terminator forms, characters of every length, "
                        "buffers 0..64); every process_byte call validated by TLC: handler calls = Classify(Tokenize(line before "
                        "Enter)) exactly once iff a token and no help request, none for any other key; line empty and one fresh "
                        "prompt afterwards")


def exact_fill_recall(ctx, sid0):
    """A command name completed so that it fills the command buffer exactly, submitted, then recalled over a
    half-typed line (an entry as long as the buffer must still be recalled and redrawn)."""
    scripts = []
    sid = sid0
    for set_id in ALLSETS:
        for name in sessions.SETS[set_id]:
            nb = len(name.encode("utf-8"))
            for cut in sorted({1, max(1, len(name) // 2), len(name)}):
                for extra in (0, 1):
                    items = [name[:cut], "<tab>", "<enter>", "x", "<up>", "<up>", "<down>", "<down>", "y", "<up>", "<enter>"]
                    scripts.append({"sid": sid, "cfg": {"cmd": nb + extra, "hcap": 4 * nb + 8, "set": set_id, "prompt": 0},
                                    "steps": scen(items, {"chunks": [{"m": "w", "t": [111]}]})})
                    sid += 1
    return scripts


@check("C06")
def c06(ctx):
    q = ctx.tier == "quick"
    prof = {"cmd": SIZES_CMD, "hcap": SIZES_HIST, "sets": ALLSETS, "prompts": [0, 1, 2, 3, 4, 5], "steps": (10, 70),
            "alphabet": sessions.W1, "hs_out": 0.4, "hs_prompt": 0.3, "partial": [0, 0, 0, 3, 11],
            "w": {"word": 10, "enter": 6, "write": 6, "prompt": 5, "left": 14, "right": 8, "tab": 8, "up": 8, "down": 5}}
    tight = dict(prof, cmd=[0, 1, 2, 3, 4], hcap=[0, 2, 5], steps=(8, 40))
    return cli_property(ctx, "C06",
                        [dict(SMALL, WithApi=True)] if q else [dict(MED, WithApi=True)],
                        2500 if q else 200000,
                        [(700 if q else 20000, prof), (300 if q else 10000, tight)], extra_scripts=systematic_api(ctx, "c06") + exact_fill_recall(ctx, 9500001), typed=150 if q else 4000,
                        rule="Cli::write / set_prompt inserted at every position of a set of short key sequences (systematic); "
                        "MC_Cli with write / set_prompt / handler prompt changes interleaved at every point (design level: the "
                        "modelled output protocol keeps Terminal in Sync in every reachable state); its transitions replayed on the "
                        "real Cli, plus random sessions over width-1 characters of every UTF-8 length and six prompts; after every "
                        "call TLC feeds the bytes actually emitted to the ECMA-48 Terminal model and requires row = prompt + line, "
                        "cursor column = prompt + cursor")


def systematic_api(ctx, kind):
    """kind = "c13": every chunking of texts over {x, LF, CR LF, empty} into <= 2 (thorough 3) calls of the three
    writer methods, through a handler and through Cli::write, at every cursor position of a short line.
    kind = "c06": Cli::write / set_prompt inserted at every position of short key sequences."""
    rng = random.Random(ctx.seed + 13)
    q = ctx.tier == "quick"
    T = sessions.text_bytes
    scripts = []
    sid = 700001
    if kind == "c13":
        pieces = ["x", "\n", "\r\n", ""]
        texts = [a + b for a in pieces for b in pieces] + pieces + ["y" * 31 + "\n", "y" * 40 + "\n", "y" * 30 + "\n"]
        methods = ["w", "wl", "f", "fc"]
        chunkings = [[(m, t)] for m in methods for t in texts]
        chunkings += [[(m1, t1), (m2, t2)] for m1 in methods for m2 in methods for t1 in pieces + ["x\n"] for t2 in pieces + ["y", "z" * 32 + "\n", "z" * 29 + "\n"]]
        if not q:
            chunkings += [[(m1, t1), (m2, t2), (m3, t3)] for m1 in methods for m2 in ["w", "wl"] for m3 in ["w", "u"]
                          for t1 in pieces for t2 in pieces for t3 in pieces]
        elif len(chunkings) > 250:
            chunkings = rng.sample(chunkings, 250)
        # literals without run-time arguments through write! / writeln! / uwrite! / uwriteln!, alone and
        # next to the other methods
        K = sessions.K_LITS
        konst = [[(m, t if m in ("kf", "ku") else t + "\n")] for m in ("kf", "kl", "ku", "kn") for t in K]
        konst += [[a[0], (m2, t2)] for a in konst for m2, t2 in (("w", "y"), ("wl", ""), ("kf", "done"))]
        konst += [[(m1, t1), a[0]] for a in konst[:len(K) * 4] for m1, t1 in (("w", "y"), ("w", "y\n"))]
        chunkings += konst if not q else rng.sample(konst, 90)
        line = "ab é"
        # a hand-written processor that writes and then rejects the command
        for n, ch in enumerate(chunkings if not q else rng.sample(chunkings, 120)):
            chunks = [{"m": m, "t": T(t)} for m, t in ch]
            scripts.append({"sid": sid, "cfg": {"cmd": 16, "hcap": 8, "set": rng.choice(["raw", "leds"]), "prompt": rng.choice([0, 2])},
                            "steps": scen(["go x", "<enter>", "z", "<left>"], {"chunks": chunks, "perr": 1 + n % 3})
                            + scen(["<enter>"], {"chunks": [], "perr": 1 + n % 3})})
            sid += 1
        for ch in chunkings:
            chunks = [{"m": m, "t": T(t)} for m, t in ch]
            for back in ([0, 2] if q else range(0, len(line) + 1)):
                typed = [{"ev": "byte", "b": b} for b in line.encode()]
                for _ in range(back):
                    typed += [{"ev": "byte", "b": b} for b in sessions.KEY_BYTES["left"]]
                scripts.append({"sid": sid, "cfg": {"cmd": 16, "hcap": 8, "set": "raw", "prompt": rng.choice([0, 2])},
                                "steps": typed + [{"ev": "write", "chunks": chunks}, {"ev": "byte", "b": 122},
                                                  {"ev": "byte", "b": 13, "hs": {"chunks": chunks}}, {"ev": "write", "chunks": chunks}]})
                sid += 1
    else:
        bases = [["a", "b", "<left>", "c"], ["é", "<left>", "x", "<bs>"], ["a", "<enter>", "<up>", "<left>", "b"],
                 ["g", "<tab>", "<left>", "<left>"], ["a", "b", "c", "<left>", "<left>", "<bs>", "<right>"],
                 ["x", "<enter>", "y", "<enter>", "<up>", "<up>", "<down>"], [" ", "h", "<tab>", "<enter>"]]
        for base in bases:
            for pos in range(0, len(base) + 1):
                for api in ({"ev": "write", "chunks": [{"m": "w", "t": T("note")}]}, {"ev": "write", "chunks": []},
                            {"ev": "write", "chunks": [{"m": "wl", "t": T("two\nrows")}]},
                            {"ev": "prompt", "p": 2}, {"ev": "prompt", "p": 1}, {"ev": "prompt", "p": 4}):
                    for cmd in ([3, 16] if q else [1, 2, 3, 4, 16]):
                        items = base[:pos] + [api] + base[pos:] + ["w", "<left>", api, "z"]
                        scripts.append({"sid": sid, "cfg": {"cmd": cmd, "hcap": 8, "set": "leds", "prompt": rng.choice([0, 1, 2])},
                                        "steps": scen(items, {"chunks": [{"m": "w", "t": T("out")}], "p": 3})})
                        sid += 1
        # a long line with the cursor far from its end (and at it) when the API redraws it: distances around
        # the sizes an implementation might choose for a scratch buffer or a counter
        dists = [1, 31, 32, 33, 39, 40, 41, 63, 64, 65, 127, 128, 129, 255, 256, 257, 300] if not q else [33, 41, 65, 129, 257]
        for d in dists:
            for ch, extra in (("a", 4), ("é", 1)):
                n = d + extra
                for api in ({"ev": "write", "chunks": [{"m": "w", "t": T("note")}]}, {"ev": "prompt", "p": 2}):
                    items = [ch * n] + ["<left>"] * d + [api, "z", "<right>", api, "<enter>"]
                    scripts.append({"sid": sid, "cfg": {"cmd": 2 * n + 8, "hcap": 8, "set": "raw", "prompt": 0},
                                    "steps": scen(items, {"chunks": [{"m": "w", "t": T("out")}]})})
                    sid += 1
        # every ordered pair of prompts (equal and different byte lengths and widths), on an empty line and
        # inside a line
        for p1 in range(len(sessions.PROMPTS)):
            for p2 in range(len(sessions.PROMPTS)):
                for items in (["ab", "<left>", {"ev": "prompt", "p": p2}, "c", {"ev": "prompt", "p": p1}, "<enter>"],
                              [{"ev": "prompt", "p": p2}, "x", "<enter>", {"ev": "prompt", "p": p1}]):
                    scripts.append({"sid": sid, "cfg": {"cmd": 16, "hcap": 8, "set": "leds", "prompt": p1},
                                    "steps": scen(items, {"chunks": [], "p": p2})})
                    sid += 1
    ctx.extra["systematic_sessions"] = len(scripts)
    return scripts


@check("C13")
def c13(ctx):
    q = ctx.tier == "quick"
    texts = ["x", "", "\n", "\r\n", "x\n", "x\r\n", "\nx", "x\ny", "x\n\ny", "\n\n", "xy\r\nz", "ж", "a b",
             "0123456789" * 3 + "\n", "0123456789" * 3 + "1\n", "0123456789" * 3 + "12\nz", "a" * 64 + "\n" + "b" * 33, "ж" * 16 + "\n"]
    prof = {"cmd": [0, 2, 5, 8, 16, 40], "hcap": [0, 5, 16], "sets": ALLSETS, "prompts": [0, 1, 2, 3], "steps": (8, 50),
            "alphabet": sessions.W1, "hs_out": 0.9, "hs_prompt": 0.2, "texts": texts, "partial": [0, 0, 0, 2],
            "w": {"word": 14, "enter": 14, "write": 12, "prompt": 2, "left": 10, "char": 25}}
    return cli_property(ctx, "C13",
                        [dict(SMALL, WithApi=True)] if q else [dict(MED, WithApi=True)],
                        2000 if q else 100000,
                        [(1000 if q else 30000, prof)], extra_scripts=systematic_api(ctx, "c13"),
                        models=[("MC_Writer", "SPECIFICATION Spec\nCONSTANT MaxCalls = %d\nINVARIANT Inv\nCHECK_DEADLOCK FALSE\n" % (3 if q else 4),
                                 {"MaxCalls": 3 if q else 4, "what": "implementation-shaped dirty flag: bytes = Conv(text) and is_dirty <=> NeedsBreak for every chunking"})],
                        rule="every chunking of texts over {x, LF, CR LF, empty} into <= 2 (thorough 3) calls of write_str / writeln_str / "
                        "formatted writes, through a handler and through Cli::write, at cursor positions of a short line; plus "
                        "handler output and Cli::write with random chunkings (<= 3 calls of write_str / writeln_str / ufmt / "
                        "core::fmt, texts over {x, LF, CR LF, empty}) at random points of sessions and at every point of the MC_Cli "
                        "graphs; TLC checks bytes between handler begin/end = Conv(text), rows shown = row before + Lines(text), "
                        "prompt on a fresh row at column 0, line and cursor intact after Cli::write")


@check("C15")
def c15(ctx):
    q = ctx.tier == "quick"
    prof = {"cmd": SIZES_CMD, "hcap": SIZES_HIST, "sets": ALLSETS, "prompts": [0, 1, 2, 3], "steps": (10, 60),
            "alphabet": ALLCH + sessions.W1, "enter_forms": ENTER_FORMS, "hs_out": 0.5, "hs_prompt": 0.2, "partial": [0, 0, 7, 99],
            "w": {"word": 14, "enter": 10, "write": 6, "prompt": 4, "tab": 8, "up": 8, "down": 5}}
    return cli_property(ctx, "C15",
                        [dict(SMALL, WithApi=True)] if q else [dict(MED, WithApi=True)],
                        2000 if q else 100000,
                        [(1000 if q else 30000, prof)], typed=200 if q else 5000, faults=0.25,
                        rule="a quarter of the sessions suffer one transient sink failure (what is written after it must be flushed too); all session kinds (keys, completion, recall, handler output, help requests, Cli::write, set_prompt, sinks "
                        "that accept writes only partially); after every successful call TLC requires that no write follows the "
                        "last flush in the recorded sink operations")


def c11_systematic(ctx):
    """Per name set: every line `blanks* prefix blanks*` for every prefix of every name (plus a non-matching
    word and a two-word line), every cursor position, every amount of room from 0 to the longest continuation
    + 2 (the command buffer is sized to give exactly that room)."""
    rng = random.Random(ctx.seed + 11)
    q = ctx.tier == "quick"
    scripts = []
    sid = 500001
    for set_id in ALLSETS:
        names = sessions.SETS[set_id] + ["help"]
        words = set()
        for n in names:
            for k in range(1, len(n) + 1):
                words.add(n[:k])
        words.update(["zz", "g x"])
        cases = []
        for w in sorted(words):
            conts = [len(n[len(w):].encode()) for n in names if n.startswith(w)]
            maxc = max(conts) if conts else 0
            for lead in (0, 1):
                for trail in (0, 1, 2):
                    line = " " * lead + w + " " * trail
                    for back in range(0, len(line) + 1):
                        for room in range(0, maxc + 3):
                            cases.append((line, back, room, lead, w))
        if q:
            cases = rng.sample(cases, min(len(cases), 500))
        elif len(cases) > 25000:
            cases = rng.sample(cases, 25000)
        for line, back, room, lead, w in cases:
            req_len = len((" " * lead + w).encode())
            cmd = max(req_len + room, len(line.encode()))
            steps = [{"ev": "byte", "b": b} for b in line.encode()]
            for _ in range(back):
                steps += [{"ev": "byte", "b": b} for b in sessions.KEY_BYTES["left"]]
            steps.append({"ev": "byte", "b": 9})
            steps.append({"ev": "byte", "b": 9})
            # Tab again after moving the cursor only (its result depends on the cursor position)
            steps += scen(["<left>", "<tab>", "<right>", "<right>", "<tab>"])
            scripts.append({"sid": sid, "cfg": {"cmd": cmd, "hcap": 0, "set": set_id, "prompt": rng.choice([0, 1])}, "steps": steps})
            sid += 1
    ctx.extra["systematic_tab_cases"] = len(scripts)
    return scripts


@check("C11")
def c11(ctx):
    q = ctx.tier == "quick"
    # Tab at random cursor positions of lines made of name prefixes and blanks, in buffers that
    # leave every amount of room
    prof = {"cmd": [1, 2, 3, 4, 5, 6, 7, 8, 9, 10, 12, 16, 40], "hcap": [0, 16], "sets": ALLSETS, "steps": (6, 40),
            "alphabet": [0x61, 0x67, 0x73, 0x68, 0x65, 0x436, 0x4E2D, 0x1F600, 0x78],
            "w": {"char": 10, "bs": 6, "left": 14, "right": 8, "up": 2, "down": 1, "tab": 22, "enter": 4, "word": 30, "space": 10}}
    return cli_property(ctx, "C11",
                        [dict(SMALL, WithApi=False)] if q else [dict(MED, WithApi=False)],
                        1500 if q else 100000,
                        [(1500 if q else 40000, prof)], extra_scripts=c11_systematic(ctx),
                        models=[("MC_Autocomplete", "SPECIFICATION Spec\nCONSTANT MaxCap = %d\nINVARIANT Inv\nCHECK_DEADLOCK FALSE\n" % (8 if q else 11),
                                 {"MaxCap": 8 if q else 11, "what": "implementation-shaped merge, every order of every <= 3-subset of 7 names, admitted by Complete over the set"})],
                        rule="per name set every line blanks* prefix blanks* for every prefix of every name x every cursor position x "
                        "every amount of room (systematic; quick: a seeded sample); Tab pressed at random cursor positions of lines built from prefixes of command names and blanks, over five "
                        "command sets (shared prefixes non-adjacent in declaration order, one name a prefix of another, multi-byte "
                        "names differing in the last octet, groups with a hidden member, names interacting with `help`) in buffers "
                        "leaving every amount of room; every Tab validated by TLC against Autocomplete!Complete over the SET of names")


# ---------------------------------------------------------------------------------------
# C14 failing sink: model-driven fault enumeration

def scen(items, hs=None):
    """Build steps from a list of strings (typed) and key names in angle brackets."""
    steps = []
    for it in items:
        if isinstance(it, dict):
            steps.append(it)
        elif it.startswith("<") and it.endswith(">") and it[1:-1] in sessions.KEY_BYTES:
            for b in sessions.KEY_BYTES[it[1:-1]]:
                st = {"ev": "byte", "b": b}
                if it == "<enter>" and hs:
                    st["hs"] = hs
                steps.append(st)
        else:
            for b in it.encode("utf-8"):
                steps.append({"ev": "byte", "b": b})
    return steps


def c14_scenarios():
    T = sessions.text_bytes
    out1 = {"chunks": [{"m": "w", "t": T("one")}]}
    out2 = {"chunks": [{"m": "wl", "t": T("a\nb")}, {"m": "u", "t": T("tail")}], "p": 2}
    out3 = {"chunks": [{"m": "f", "t": T("x\n")}, {"m": "w", "t": T("")}], "p": 3}
    W1 = {"ev": "write", "chunks": [{"m": "w", "t": T("note")}]}
    W2 = {"ev": "write", "chunks": [{"m": "wl", "t": T("l1\nl2")}, {"m": "w", "t": T("x")}]}
    P = {"ev": "prompt", "p": 4}
    S = []

    def add(set_id, cmd, hcap, items, hs=None, prompt=0):
        S.append({"cfg": {"cmd": cmd, "hcap": hcap, "set": set_id, "prompt": prompt}, "steps": scen(items, hs)})

    add("raw", 8, 16, ["ab", "<left>", "c", "<bs>", "<right>", "d"])
    add("raw", 3, 16, ["abé", "x", "<left>", "<left>", "y"])
    add("raw", 8, 16, ["a", "<enter>", "bb", "<enter>", "<up>", "<up>", "<up>", "<down>", "<down>", "<down>"])
    add("leds", 16, 16, ["g", "<tab>", "e", "<tab>", "<bs>", "<bs>", "<bs>", "<bs>", "<bs>", "ex", "<tab>", "<enter>"])
    add("mixed", 16, 0, ["  ж", "<tab>", "а", "<left>", "<left>", "<tab>"])
    add("leds", 16, 8, ["ge", "<left>", "<tab>", "x"])
    add("leds", 16, 8, ["exi  ", "<left>", "<left>", "<tab>"])
    add("raw", 12, 8, ["aЖ", "<left>", "中", "😀", "<bs>"])
    add("raw", 16, 16, ["run 1", "<enter>"], out1)
    add("raw", 16, 16, ["say \"a b\" -x", "<enter>"], out2)
    add("raw", 16, 4, ["\"q\\\"r\" z", "<left>", "<enter>"], out3, prompt=2)
    add("raw", 16, 16, ["", "<enter>", "   ", "<enter>"], out1)
    add("leds", 24, 16, ["help", "<enter>"], out1)
    add("leds", 24, 16, ["help get-adc", "<enter>"], out1)
    add("leds", 24, 16, ["get-led --help", "<enter>"], out1)
    add("leds", 24, 16, ["help nope", "<enter>"], out1)
    add("grouped", 24, 16, ["help", "<enter>"], out1)
    add("grouped", 24, 16, ["help hello", "<enter>"], out1)
    add("grouped", 24, 16, ["help get-led", "<enter>"], out1)
    add("grouped", 24, 16, ["get-adc -h", "<enter>"], out1)
    add("grouped", 24, 16, ["help secret", "<enter>"], out1)
    add("grouped", 24, 16, ["help nope", "<enter>"], out1)
    add("raw", 8, 16, ["abc", "<left>", "<left>", W1, "x", W2, P, "y"], prompt=2)
    add("raw", 8, 16, [W2, "a", P, W1], prompt=1)
    add("tiny", 2, 3, ["a", "<tab>", "<enter>", "<up>", "é", "<down>"], out2)
    # derived command sets: parse errors (the `error:` line), accepted lines with handler output, help
    cat, by_id = load_catalogue()

    def addd(decl, items, hs=None):
        names = [list(n.encode("utf-8")) for n in decl_names(by_id, decl)]
        S.append({"cfg": {"cmd": 32, "hcap": 16, "set": "raw", "decl": decl, "names": names, "prompt": 0}, "steps": scen(items, hs)})

    addd("args", ["pos 300", "<enter>"], out1)
    addd("args", ["pos", "<enter>", "pos 7 x", "<enter>"], out2)
    addd("args", ["opts --zz", "<enter>", "nope", "<enter>"], out1)
    addd("args", ["flags -z", "<enter>", "copy", "<enter>"], out1)
    addd("args", ["pos 7 x extra", "<enter>"], out1)
    addd("grp2", ["dev chan read 7", "<enter>", "dev chan bogus", "<enter>"], out3)
    addd("grp2", ["dev -b x status", "<enter>", "de", "<tab>", "<enter>"], out1)
    addd("grp", ["hel", "<tab>", "<enter>", "secret 3", "<enter>"], out1)
    return S


def decl_names(by_id, rid):
    """names of the commands of all visible groups of declaration rid, in declaration order"""
    e = by_id[rid]
    if e["kind"] == "group":
        out = []
        for m in e["members"]:
            if not m["hidden"]:
                out += decl_names(by_id, m["enum"])
        return out
    return [v["name"] for v in e["variants"]]


def typed_sessions(rng, n, sid0, by_id, roots=("args", "top", "grp", "grp2", "names"), hs_out=0.4, gated=True):
    """Random sessions against derived command sets: plausible and implausible command lines with editing"""
    out = []
    for i in range(n):
        rid = rng.choice(roots)
        e = by_id[rid]
        names = decl_names(by_id, rid)
        paths = variant_paths(e, by_id)
        steps = []
        for _ in range(rng.randint(1, 4)):
            path, v = rng.choice(paths)
            alpha = variant_alphabet(v, by_id, rng)
            toks = list(path) + [rng.choice(alpha) for _ in range(rng.randint(0, 3))]
            if gated and rng.random() < 0.15:
                toks = ["help"] + toks[:2]
            if not gated:
                toks = [t for t in toks if t not in ("help",) and not (t.startswith("-") and "h" in t and not t.startswith("--"))]
            line = " ".join(t if t and " " not in t and '"' not in t else '"%s"' % t.replace('"', '\\"') for t in toks)
            items = [line]
            if rng.random() < 0.3:
                items += ["<left>", "<bs>"] + (["<tab>"] if gated else [])
            items.append("<enter>")
            if gated and rng.random() < 0.3:
                items.append("<up>")
            hs = sessions.handler_script(rng, hs_out, 0.2)
            steps += scen(items, hs or None)
        out.append({"sid": sid0 + i, "cfg": {"cmd": rng.choice([24, 40, 64]), "hcap": rng.choice([0, 16, 64]), "set": "raw", "decl": rid,
                                             "names": [list(x.encode("utf-8")) for x in names], "prompt": rng.choice([0, 1, 2])},
                    "steps": steps})
    return out


FOLLOW_UP = scen(["x", "<enter>", "<up>", "<enter>", "ok", "<enter>"], {"chunks": [{"m": "w", "t": [122]}]})
# the same key again / Enter straight away: whatever the failed call left behind is used as it stands
FOLLOW_UP2 = scen(["<enter>", "<left>", "y", "<bs>", "<right>", "<enter>", "<up>", "<enter>"], {"chunks": [{"m": "wl", "t": [122]}]})
FOLLOW_UP3 = scen(["<right>", "<bs>", "z", "<enter>", "<down>", "<up>", "<enter>"], {"chunks": [{"m": "w", "t": [122]}]})
# LF first: if the failed call was the CR of a CR LF pair, the LF still belongs to it
FOLLOW_UP4 = [{"ev": "byte", "b": 10}] + scen(["w", "<enter>", "<up>", "<enter>"], {"chunks": [{"m": "w", "t": [122]}]})


@check("C14")
def c14(ctx):
    vh = vlib.build_harness()
    rng = random.Random(ctx.seed)
    q = ctx.tier == "quick"
    # scenario corpus: hand-written kinds + shortest paths chosen by TLC from the composite model + random sessions
    scenarios = c14_scenarios()
    mc = mc_cli_scripts(ctx, dict(SMALL, WithApi=True), rng, limit=25 if q else 250)
    scenarios += [{"cfg": sc["cfg"], "steps": sc["steps"]} for sc in mc if sc["steps"]]
    prof = {"cmd": [2, 5, 8, 16], "hcap": [0, 4, 16], "sets": ALLSETS, "prompts": [0, 1, 2], "steps": (6, 14),
            "alphabet": sessions.W1, "hs_out": 0.7, "hs_prompt": 0.3,
            "w": {"word": 14, "enter": 12, "write": 6, "prompt": 4, "tab": 8, "up": 8, "down": 4, "left": 8, "quote": 4}}
    scenarios += [{"cfg": sc["cfg"], "steps": sc["steps"]} for sc in sessions.gen_sessions(rng, 15 if q else 300, prof)]
    scenarios += [{"cfg": sc["cfg"], "steps": sc["steps"]} for sc in typed_sessions(rng, 8 if q else 150, 1, load_catalogue()[1])]
    for i, sc in enumerate(scenarios):
        sc["sid"] = i + 1
    # 1. fault-free run: number of sink operations of every call
    base_trace = exec_scripts(ctx, vh, scenarios, "c14base", "C14")
    nops = {}
    for rec in vlib.read_ndjson(base_trace):
        if rec.get("ev") != "panic":
            nops[(rec["sid"], rec["i"])] = rec.get("nops", 0)
    os.remove(base_trace)
    # 2. every call, every operation position, once / permanently
    variants = []
    sid = 100000
    npos = 0
    for sc in scenarios:
        for i in range(0, len(sc["steps"]) + 1):
            k_max = nops.get((sc["sid"], i), 0)
            for k in range(1, k_max + 1):
                npos += 1
                for mode in ("once", "perm"):
                    sid += 1
                    if i == 0:
                        cfg = dict(sc["cfg"], fail={"at": k, "mode": mode})
                        variants.append({"sid": sid, "cfg": cfg, "steps": []})
                    else:
                        steps = [dict(st) for st in sc["steps"][:i]]
                        steps[i - 1]["fail"] = {"at": k, "mode": mode}
                        variants.append({"sid": sid, "cfg": sc["cfg"], "steps": steps + (FOLLOW_UP, FOLLOW_UP2, FOLLOW_UP3, FOLLOW_UP4)[(i + k) % 4]})
    ctx.extra["scenarios"] = len(scenarios)
    ctx.extra["fault_positions"] = npos
    ctx.extra["faulted_runs"] = len(variants)
    ctx.sample({"faulted_script": compact_script(variants[len(variants) // 2]), "fail": [st.get("fail") for st in variants[len(variants) // 2]["steps"] if "fail" in st]})
    validate_cli(ctx, vh, scenarios + variants, "C14", "c14", shards=12)
    return ctx.finish("fault enumeration driven by the model: scenario corpus (typing, editing, recall, completion, Enter with handler "
                      "output, help in plain and grouped sets, Cli::write, set_prompt; shortest paths chosen by TLC from MC_Cli; random "
                      "sessions); every sink operation of every call failed once and permanently, followed by further input with a "
                      "working sink; each faulted run validated by TLC: err iff a fault fired, line = old / new / empty, later "
                      "dispatches as specified", level="model_checking")


# ---------------------------------------------------------------------------------------
# C16 feature combinations

def feature_subsets():
    fs = vlib.ALL_FEATURES
    out = []
    for m in range(8):
        out.append(tuple(f for i, f in enumerate(fs) if m & (1 << i)))
    return sorted(out, key=lambda t: -len(t))


def strip_cfg(line):
    rec = json.loads(line)
    if "cfg" in rec:
        for k in ("hist", "ac", "help"):
            rec["cfg"].pop(k, None)
    return rec


@check("C16")
def c16(ctx):
    rng = random.Random(ctx.seed)
    q = ctx.tier == "quick"
    builds = {}
    for fs in feature_subsets():
        try:
            builds[fs] = vlib.build_harness(features=fs)
        except vlib.ToolError as e:
            if fs == tuple(vlib.ALL_FEATURES):
                raise
            # the library must build under every feature combination
            ctx.violation({"kind": "build", "conjunct": "builds under every feature combination", "input": list(fs)},
                          {"kind": "build", "features": list(fs), "output": str(e)[-3000:]})
    ctx.extra["feature_sets_built"] = len(builds)
    base = dict(cmd=SIZES_CMD, hcap=SIZES_HIST, prompts=[0, 1, 2], steps=(10, 60), alphabet=sessions.W1,
                enter_forms=ENTER_FORMS, hs_out=0.4, hs_prompt=0.2)
    ungated = dict(base, sets=ALLSETS, w={"up": 0, "down": 0, "tab": 0, "word": 0, "write": 4, "prompt": 3, "enter": 10, "quote": 3, "dash": 3})
    gated = dict(base, sets=ALLSETS, w={"up": 10, "down": 6, "tab": 10, "word": 16, "write": 3, "prompt": 2, "enter": 10, "dash": 3},
                 alphabet=sessions.W1 + [0x68, 0x67, 0x65])
    n_a = 300 if q else 6000
    n_b = 400 if q else 8000
    scripts_a = sessions.gen_sessions(rng, n_a, ungated, sid0=1)
    scripts_a += typed_sessions(rng, 150 if q else 3000, 50001, load_catalogue()[1], gated=False)
    scripts_b = sessions.gen_sessions(rng, n_b, gated, sid0=100001)
    # explicit help-shaped lines for every set
    T = []
    for set_id in ALLSETS:
        for line in ["help", "help " + (sessions.SETS[set_id] or ["x"])[0], (sessions.SETS[set_id] or ["x"])[0] + " --help", "x -h", "help -x", "he\t", "h\t\r", "\x1b[A"]:
            T.append({"cfg": {"cmd": 24, "hcap": 16, "set": set_id, "prompt": 0},
                      "steps": scen([line.replace("\t", ""), "<tab>" if "\t" in line else "", "<enter>", "<up>", "<enter>"],
                                    {"chunks": [{"m": "w", "t": [111]}]})})
    for i, sc in enumerate(T):
        sc["sid"] = 200001 + i
        sc["steps"] = [st for st in sc["steps"]]
    scripts_b += T
    # gated keys next to the decoder's stateful bytes: every sequence of <= 3 (thorough 4) units over
    # {CR, LF, Tab, ESC, '[', 'C', Up, Down, 'a', BS}: a disabled facility must not disturb decoding either
    crit = [[13], [10], [9], [27], [91], [67], [27, 91, 65], [27, 91, 66], [97], [8]]
    seqs = [[]]
    fr = [[]]
    for _ in range(3 if q else 4):
        fr = [x + [u] for x in fr for u in range(len(crit))]
        seqs += fr
    U = []
    for i, sq in enumerate(seqs):
        bs = [97]
        for u in sq:
            bs += crit[u]
        bs += [98, 13]
        U.append({"sid": 400001 + i, "cfg": {"cmd": 8, "hcap": 8, "set": "tiny", "prompt": 0},
                  "steps": [{"ev": "byte", "b": b} for b in bs]})
    scripts_b += U
    ctx.extra["critical_unit_sequences"] = len(U)
    ref = None
    full = tuple(vlib.ALL_FEATURES)
    order = [full] + [fs for fs in builds if fs != full]
    for fs in order:
        vh = builds[fs]
        tag = vlib.feature_tag(fs)
        # (A) ungated sessions must be identical, record by record, to the all-features build
        tr = exec_scripts(ctx, vh, scripts_a, "c16a-" + tag, "C16")
        with open(tr) as f:
            recs = [strip_cfg(l) for l in f]
        os.remove(tr)
        if ref is None:
            ref = recs
            # the reference itself is validated by the specification, so that it is not vacuous
            validate_cli(ctx, vh, scripts_a, "C16", "c16ref", shards=8)
        else:
            ctx.traces += n_a
            ctx.events += len(recs)
            def vis(r):
                # the state of a disabled facility is not part of the comparison
                if "history" in fs or "st" not in r:
                    return r
                r2 = dict(r)
                r2["st"] = {k: v for k, v in r["st"].items() if k not in ("hist", "nav")}
                return r2
            if len(recs) != len(ref) or any(vis(a) != vis(b) for a, b in zip(recs, ref)):
                idx = next((i for i, (a, b) in enumerate(zip(recs, ref)) if vis(a) != vis(b)), min(len(recs), len(ref)))
                bad = recs[idx] if idx < len(recs) else None
                sid = (bad or ref[idx]).get("sid")
                sc = next((x for x in scripts_a if x["sid"] == sid), None)
                ctx.violation({"kind": "diff", "conjunct": "behaviour without the disabled facility differs from the all-features build",
                               "features": list(fs), "input": compact_script(sc) if sc else None},
                              {"kind": "cli16", "features": list(fs), "script": sc, "record": bad, "reference_record": ref[idx] if idx < len(ref) else None})
        # (B) gated sessions validated against the specification configured the same way,
        # together with the transitions of the design-level model with the same switches
        consts = dict(SMALL, WithApi=False, HistOn="history" in fs, AcOn="autocomplete" in fs, HelpOn="help" in fs)
        mc = mc_cli_scripts(ctx, consts, rng, limit=600 if q else 20000, sid0=300001)
        validate_cli(ctx, vh, scripts_b + mc, "C16", "c16b-" + tag, shards=8)
    ctx.sample({"feature_sets": [list(fs) for fs in builds]})
    return ctx.finish("eight builds of the harness (features macros + every subset of {history, autocomplete, help}; a failing build is "
                      "a violation). (A) sessions that use no gated facility, same seeds in every build: recorded results, sink "
                      "operations, states and handler calls identical to the all-features build record by record (the reference "
                      "itself validated by TLC). (B) sessions using Up/Down, Tab and help-shaped lines: validated by TLC against Cli "
                      "with HistoryOn / AutocompleteOn / HelpOn set as in the build")


# ---------------------------------------------------------------------------------------
# C09 / C12: derived parsers and help over the catalogue of declarations

CATALOGUE = os.path.join(vlib.ROOT, "gen", "catalogue.json")

VALUE_POOL = {
    "u8": ["0", "255", "256", "-1", "7", "x"], "i8": ["-128", "127", "128", "a"], "u16": ["65535", "65536", "9"],
    "i16": ["-32768", "32768", "3"], "u32": ["4294967295", "4294967296", "12"], "i32": ["-2147483648", "2147483648", "5"],
    "u64": ["18446744073709551615", "18446744073709551616", "1"], "i64": ["-9223372036854775808", "9223372036854775808", "2"],
    "u128": ["340282366920938463463374607431768211455", "340282366920938463463374607431768211456", "4"],
    "i128": ["-170141183460469231731687303715884105728", "170141183460469231731687303715884105728", "6"],
    "usize": ["0", "-1", "18446744073709551615"], "isize": ["-5", "x1", "8"],
    "f32": ["1.5", "1", "-0.25", "nan", "1e3", "x", "1.0000001788139343", "16777217.000000001", "0.1", "3.4028236e38"], "f64": ["2.5", "inf", "1e400", "--"],
    "char": ["a", "ж", "ab", "😀"], "bool": ["true", "false", "1", "yes"],
    "str": ["text", "two words", "ж中😀", "a\"b"],
}


def load_catalogue():
    with open(CATALOGUE) as f:
        cat = json.load(f)
    return cat, {e["id"]: e for e in cat["enums"]}


def reachable_types(e, by_id, seen=None):
    seen = seen if seen is not None else set()
    out = set()
    if e["id"] in seen:
        return out
    seen.add(e["id"])
    for m in e.get("members", []):
        out |= reachable_types(by_id[m["enum"]], by_id, seen)
    for v in e.get("variants", []):
        for a in v["args"]:
            out.add(a["ty"])
        if v["sub"]:
            out |= reachable_types(by_id[v["sub"]], by_id, seen)
    return out


def variant_paths(e, by_id, prefix=(), depth=0):
    """(path of names, variant) for every command reachable from declaration e (groups flattened)"""
    out = []
    if depth > 4:
        return out
    for m in e.get("members", []):
        out += variant_paths(by_id[m["enum"]], by_id, prefix, depth)
    for v in e.get("variants", []):
        out.append((prefix + (v["name"],), v))
        if v["sub"]:
            out += variant_paths(by_id[v["sub"]], by_id, prefix + (v["name"],), depth + 1)
    return out


def variant_alphabet(v, by_id, rng):
    """tokens worth trying after the name of variant v"""
    toks = ["--", "--zz", "-z", "-", "", "nope"]
    vals = set()
    for a in v["args"]:
        if a["has_long"]:
            toks.append("--" + a["long"])
        if a["short"]:
            toks.append("-" + a["short"])
        pool = VALUE_POOL[a["ty"]]
        if a["ty"] in ("f32", "f64"):
            vals.update(pool)          # decimal -> binary rounding has its own corner cases: try them all
        else:
            vals.update(rng.sample(pool, min(3, len(pool))))
        vals.add(pool[0])
    shorts = [a["short"] for a in v["args"] if a["short"]]
    if len(shorts) >= 2:
        toks.append("-" + "".join(shorts[:3]))
        toks.append("-" + shorts[1] + shorts[0])
    if shorts:
        toks.append("-" + shorts[0] + "z")
    if v["sub"]:
        sub = by_id[v["sub"]]
        for sv in sub.get("variants", [])[:3]:
            toks.append(sv["name"])
    if not vals:
        vals = {"5", "text"}
    return toks + sorted(vals)


def tokens_bytes(ts):
    return [list(t.encode("utf-8")) for t in ts]


def derive_requests(rng, tier, roots, by_id, help_lines=False):
    q = tier == "quick"
    reqs = []
    for rid in roots:
        e = by_id[rid]
        types = sorted(reachable_types(e, by_id))
        seen = set()

        def add(ts, via=None):
            key = tuple(ts)
            if key in seen:
                return
            seen.add(key)
            reqs.append({"m": "parse", "decl": rid, "toks": tokens_bytes(ts),
                         "via": via or ("processor" if rng.random() < 0.25 else "parse"), "types": types})

        paths = variant_paths(e, by_id)
        for path, v in paths:
            alpha = variant_alphabet(v, by_id, rng)
            base = list(path)
            if not help_lines:
                add(base)
                for a in alpha:
                    add(base + [a])
                # names and options are matched exactly: near-miss spellings are other names
                for m in spellings(base[-1]):
                    add(base[:-1] + [m])
                    add(base[:-1] + [m, alpha[-1]])
                for a in alpha:
                    if a.startswith("-") and len(a) > 1 and a != "--":
                        for m in spellings(a)[: (2 if q else 8)]:
                            add(base + [m])
                            add(base + [m, alpha[-1]])
                if len(alpha) <= (14 if q else 30):
                    for a in alpha:
                        for b in alpha:
                            add(base + [a, b])
                n_rand = 60 if q else 1500
                for _ in range(n_rand):
                    k = rng.randint(2, 6)
                    add(base + [rng.choice(alpha) for _ in range(k)])
                # parent options before the sub-command name, for nested paths
                if len(path) > 1:
                    for _ in range(10 if q else 100):
                        ts = []
                        cur = e
                        for name in path:
                            ts.append(name)
                            if rng.random() < 0.5:
                                ts.append(rng.choice(["-v", "--bus", "3", "-b", "--idx", "1", "-x", "--"]))
                        add(ts + [rng.choice(alpha) for _ in range(rng.randint(0, 3))])
            else:
                # help-shaped lines: `help path...`, and the help option inserted at every position
                add(["help"] + base)
                add(["help"] + base + ["extra"])
                # only `help`, `-h` and `--help`, spelt exactly so, ask for help
                for m in spellings("help"):
                    add([m] + base)
                for m in spellings("--help") + spellings("-h"):
                    add(base + [m])
                    add(base + [alpha[-1], m])
                n_rand = 8 if q else 60
                lines = [base, base + [rng.choice(alpha)]] + [base + [rng.choice(alpha) for _ in range(rng.randint(1, 4))] for _ in range(n_rand)]
                if len(path) > 1:
                    # options of the parent commands (short and long forms, with values) before each sub-command name
                    for _ in range(6 if q else 25):
                        ts = []
                        cur = e
                        chain = []
                        for idx, name in enumerate(path):
                            ts.append(name)
                            owner = next((vv for pp, vv in paths if pp == tuple(path[:idx + 1])), None)
                            if owner is not None and idx < len(path) - 1:
                                for a in owner["args"]:
                                    if a["kind"] != "pos" and rng.random() < 0.6:
                                        form = ("-" + a["short"]) if (a["short"] and (not a["has_long"] or rng.random() < 0.6)) else ("--" + a["long"])
                                        ts.append(form)
                                        if a["kind"] == "opt":
                                            ts.append(VALUE_POOL[a["ty"]][0])
                        lines.append(ts)
                        lines.append(ts + [rng.choice(alpha)])
                for li, ln in enumerate(lines):
                    for pos in range(1, len(ln) + 1):
                        hs = [["--help"], ["-h"], ["-zh"], ["-hz"]]
                        if (not q and li % 3 == 0) or (li < 2 and pos in (1, len(ln))):
                            hs += [["-\u0e01h"], ["-中h"], ["-é😀h"]]
                        elif q and rng.random() < 0.5:
                            hs = hs[:2]
                        for h in hs:
                            add(ln[:pos] + h + ln[pos:])
        if help_lines:
            for m in spellings("help"):
                add([m])
                add([m, "nope"])
            add(["help"])
            add(["help", "nope"])
            add(["help", "help"])
            add(["nope", "--help"])
            add(["nope", "-h", "x"])
            for path, v in paths:
                add(["help"] + list(path) + ["nope"])
        else:
            add(["nope"])
            add(["nope", "x", "--y"])
            add([""])
            add(["", "x"])
    return reqs


ROOTS = ["plain", "args", "types", "top", "names", "grp", "grp2", "grp3", "grp4", "grp5", "leaf", "empty"]


def regenerate_catalogue(ctx):
    """The generated Rust source and catalogue.json are committed; regenerate them (deterministic)
    so that the specification and the code are certainly built from the same description."""
    extra = 0 if ctx.tier == "quick" else 12
    seed = 0 if ctx.tier == "quick" else ctx.seed
    vlib.sh([os.path.join(vlib.ROOT, "gen", "catalogue.py"), "--seed", str(seed), "--extra", str(extra)], cwd=vlib.ROOT)
    cat, by_id = load_catalogue()
    roots = ROOTS + [e["id"] for e in cat["enums"] if e["id"].startswith("rnd")]
    return cat, by_id, roots


def derive_check(ctx, focus, help_lines, rule):
    rng = random.Random(ctx.seed)
    try:
        cat, by_id, roots = regenerate_catalogue(ctx)
        vh = vlib.build_harness()
        # spec level: Parse / HelpEnum total and well-formed over every declaration's own alphabet
        empty = os.path.join(ctx.workdir, "empty.ndjson")
        open(empty, "w").close()
        r = vlib.tlc_mc(ctx.workdir, "MC_Derive", "SPECIFICATION MSpec\nCONSTANT MaxToks = %d\nINVARIANT Inv\nCHECK_DEADLOCK FALSE\n" % (2 if ctx.tier == "quick" else 3),
                        workers=8, want_T=False, env_extra={"CATALOGUE": CATALOGUE, "TRACE": empty, "FOCUS": "ALL"}, timeout=1500)
        ctx.add_mc(r)
        reqs = derive_requests(rng, ctx.tier, roots, by_id, help_lines)
        rng.shuffle(reqs)
        ctx.extra["programs"] = len(cat["enums"])
        ctx.extra["variants"] = sum(len(e["variants"]) for e in cat["enums"])
        ctx.extra["lines"] = len(reqs)
        ctx.sample({"declaration": by_id["args"]["variants"][1]["ident"], "line": [bytes(t).decode() for t in reqs[0]["toks"]], "decl": reqs[0]["decl"]})
        run_mod(ctx, vh, reqs, focus.lower(), shards=12, spec="DeriveTrace", env={"CATALOGUE": CATALOGUE, "FOCUS": focus})
    finally:
        if ctx.tier != "quick":
            # restore the committed (seed-independent) catalogue
            vlib.sh([os.path.join(vlib.ROOT, "gen", "catalogue.py"), "--seed", "0", "--extra", "0"], cwd=vlib.ROOT)
    return ctx.finish(rule)


@check("C09")
def c09(ctx):
    return derive_check(ctx, "C09", False,
                        "catalogue of command declarations (every attribute form: unit / struct / tuple variants, positional / option / "
                        "flag fields of every supported type, Option, default_value, default_value_t, custom short / long / value_name / "
                        "name, multi-byte names, sub-commands nested to depth 3, optional sub-commands, groups, hidden groups; thorough: "
                        "plus seed-dependent random declarations) compiled with the repository's macros; per command all token lists of "
                        "<= 2 tokens over its own alphabet (its options, clusters, wrong options, values valid and invalid for its types, "
                        "`--`, sub-command names) and random longer ones, typed into a real Cli; every outcome (handler value tree, "
                        "ParseError kind and payload, the printed error line) validated by TLC against Derive!Parse")


def c12_sessions(ctx, vh):
    """Help-shaped lines inside ordinary editing sessions: typed, completed, edited, recalled from history and
    submitted again - the handler must never see them (FOCUS=C12 judges the handler calls of every Enter)."""
    rng = random.Random(ctx.seed + 12)
    q = ctx.tier == "quick"
    cat, by_id = load_catalogue()
    scripts = typed_sessions(rng, 150 if q else 5000, 1, by_id, hs_out=0.3)
    T = []
    for set_id in ["leds", "grouped", "mixed", "raw"]:
        names = sessions.SETS[set_id] or ["x"]
        for line in ["help", "help " + names[0], names[0] + " --help", names[-1] + " -h", names[0] + " -xh 1", names[0] + " -- -h", "help -x", "help  " + names[-1] + " z"]:
            for tail in (["<enter>", "<up>", "<enter>"], ["<enter>", "<up>", "<up>", "<down>", "<enter>"],
                         ["<left>", "<right>", "<enter>", "q", "<enter>", "<up>", "<up>", "<enter>"],
                         ["<enter>", "<up>", "<bs>", "<enter>", "<up>", "p", "<bs>", "<enter>"]):
                T.append({"cfg": {"cmd": 32, "hcap": rng.choice([16, 64]), "set": set_id, "prompt": 0, "rawproc": rng.random() < 0.5},
                          "steps": scen([line] + tail, {"chunks": [{"m": "w", "t": [111]}]})})
    # the Enter that submits a help request fails in the sink (first or second operation, once) and is repeated
    F = []
    for sc in T[::4]:
        base = sc["steps"]
        first_enter = next(i for i, st in enumerate(base) if st["ev"] == "byte" and st["b"] == 13)
        for at in (1, 2, 3):
            steps = [dict(st) for st in base[:first_enter + 1]]
            steps[first_enter]["fail"] = {"at": at, "mode": "once"}
            steps += scen(["<enter>", "<up>", "<enter>"], {"chunks": [{"m": "w", "t": [111]}]})
            F.append({"cfg": sc["cfg"], "steps": steps})
    T += F
    for i, sc in enumerate(T):
        sc["sid"] = 600001 + i
    prof = {"cmd": [16, 40], "hcap": [0, 16, 64], "sets": ALLSETS, "prompts": [0, 1], "steps": (15, 60),
            "alphabet": [0x68, 0x65, 0x6C, 0x70, 0x2D, 0x61], "hs_out": 0.3,
            "w": {"char": 20, "word": 25, "dash": 10, "space": 10, "enter": 14, "up": 10, "down": 4, "tab": 6, "bs": 4, "left": 3}}
    scripts += T + sessions.gen_sessions(rng, 300 if q else 8000, prof, sid0=700001)
    validate_cli(ctx, vh, scripts, "C12", "c12cli", shards=12)


@check("C12")
def c12(ctx):
    c12_sessions(ctx, vlib.build_harness())
    return derive_check(ctx, "C12", True,
                        "for every declaration of the catalogue: `help`, `help <path>` for every command path, unknown and hidden names, "
                        "and command lines with -h / --help / clusters containing h inserted at every position (before and after `--`); "
                        "TLC checks that neither handler nor parser was reached and that the printed help says what the declaration "
                        "says (every command once with its summary; description, usage line with the full path, every positional, every "
                        "option with names and value name, sub-commands), layout aside; unknown / hidden -> `error: unknown command`")


# ---------------------------------------------------------------------------------------
# C03 no panic / abort / overflow / out-of-bounds

def run_miri(ctx, scripts, label):
    """Execute scripts under Miri (thorough): undefined behaviour or a panic is a violation."""
    sp = os.path.join(ctx.workdir, label + ".miri.scripts.ndjson")
    tp = os.path.join(ctx.workdir, label + ".miri.trace.ndjson")
    with open(sp, "w") as f:
        for sc in scripts:
            f.write(json.dumps(sc, separators=(",", ":")) + "\n")
    env = {"MIRIFLAGS": "-Zmiri-disable-isolation -Zmiri-ignore-leaks", "CARGO_NET_OFFLINE": "true"}
    p = vlib.sh(["cargo", "+nightly", "miri", "run", "--offline", "--quiet", "--target-dir", os.path.join(vlib.HARNESS, "target-miri"),
                 "--no-default-features", "--features", "history,autocomplete,help", "--", "cli", sp, tp],
                cwd=vlib.HARNESS, env=env, check=False, timeout=3000)
    ctx.extra["miri_sessions"] = len(scripts)
    if p.returncode != 0:
        begun = None
        for l in p.stdout.splitlines():
            if l.startswith("BEGIN "):
                begun = int(l.split()[1])
            elif l.startswith("END "):
                begun = None
        if "Undefined Behavior" in p.stdout or begun is not None:
            sc = next((x for x in scripts if x["sid"] == begun), None)
            ctx.violation({"kind": "miri", "conjunct": "undefined behaviour / abort under Miri", "input": compact_script(sc) if sc else None},
                          {"kind": "cli", "focus": "C03", "script": sc, "miri": p.stdout[-4000:]})
        else:
            raise vlib.ToolError("miri run failed:\n" + p.stdout[-3000:])
    else:
        # panics are recorded in the trace
        for rec in vlib.read_ndjson(tp):
            if rec.get("ev") == "panic":
                sc = next((x for x in scripts if x["sid"] == rec["sid"]), None)
                ctx.violation({"kind": "panic", "conjunct": "no panic / abort", "msg": rec.get("msg", "")[:200], "input": compact_script(sc) if sc else None},
                              {"kind": "cli", "focus": "C03", "script": sc, "panic": rec})
    for pth in (sp, tp):
        if os.path.exists(pth):
            os.remove(pth)


@check("C03")
def c03(ctx):
    vh = vlib.build_harness()
    rng = random.Random(ctx.seed)
    q = ctx.tier == "quick"
    # (i) the structural invariants imply the preconditions of every unchecked operation
    for cap in ([0, 1, 2, 3, 4] if q else [0, 1, 2, 3, 4, 5, 6]):
        r = vlib.tlc_mc(ctx.workdir, "MC_EditorBuf", "SPECIFICATION Spec\nCONSTANTS\n  Cap = %d\n  Chars = {97, 233, 20013, 128512}\nVIEW View\nINVARIANT Inv\nCHECK_DEADLOCK FALSE\n" % cap, want_T=False)
        r["constants"] = {"Cap": cap}
        ctx.add_mc(r)
    for hcap in ([0, 1, 2, 3, 5, 6] if q else list(range(0, 10))):
        r = vlib.tlc_mc(ctx.workdir, "MC_HistoryBuf", "SPECIFICATION Spec\nCONSTANTS\n  HCap = %d\nVIEW View\nINVARIANT Inv\nCHECK_DEADLOCK FALSE\n" % hcap, want_T=False)
        r["constants"] = {"HCap": hcap}
        ctx.add_mc(r)
    r = vlib.tlc_mc(ctx.workdir, "MC_TokenizerBuf", "SPECIFICATION Spec\nCONSTANT MaxLine = %d\nINVARIANT Inv\nCHECK_DEADLOCK FALSE\n" % (5 if q else 7), workers=8, want_T=False)
    r["constants"] = {"MaxLine": 5 if q else 7}
    ctx.add_mc(r)
    # (ii) every transition of the composite model for every pair of small sizes, dead bytes poisoned
    scripts = []
    top = 2 if q else 3
    pairs = [(c, h) for c in range(0, top + 1) for h in range(0, top + 1)]
    if not q:
        pairs += [(4, 0), (4, 4), (0, 4), (1, 4)]
    for cmd, hcap in pairs:
            chars = [97, 233] if q else ([97, 233, 20013] if cmd <= 3 else [97, 128512])
            consts = {"CmdCap": cmd, "HistCap": hcap, "Chars": chars, "NameSet": "tiny", "WithApi": cmd <= 3}
            sc = mc_cli_scripts(ctx, consts, rng, limit=400 if q else 6000, sid0=len(scripts) + 1)
            for x in sc:
                x["cfg"]["poison"] = True
            scripts += sc
    # (iii) arbitrary bytes, sizes 0..64 for both buffers, write / set_prompt interleaved
    prof = {"cmd": list(range(0, 9)) + [13, 16, 31, 32, 33, 63, 64], "hcap": list(range(0, 9)) + [13, 16, 31, 32, 33, 63, 64],
            "sets": ALLSETS, "prompts": [0, 1, 2, 3, 4, 5], "steps": (20, 160), "alphabet": ALLCH + sessions.W1,
            "enter_forms": ENTER_FORMS, "hs_out": 0.4, "hs_prompt": 0.2, "partial": [0, 0, 5],
            "methods": ("w", "wl", "u", "f", "fc", "uc", "le", "ti"),
            "w": {"rawbyte": 60, "char": 20, "ctl": 6, "csi": 4, "word": 8, "write": 4, "prompt": 3, "tab": 8, "up": 8, "down": 5, "enter": 8}}
    rand = sessions.gen_sessions(rng, 1500 if q else 40000, prof, sid0=len(scripts) + 1)
    for i, x in enumerate(rand):
        x["cfg"]["poison"] = (i % 2 == 0)
    scripts += rand
    # Tab with every amount of room (exact fits included), and long lines with the cursor far from the end
    # while the application writes / changes the prompt
    tabs = c11_systematic(ctx)
    for i, x in enumerate(tabs):
        x["sid"] = 3000000 + i
    nav = {"cmd": [16, 32, 40, 64], "hcap": [0, 32], "sets": ALLSETS, "prompts": [0, 2, 4], "steps": (30, 120),
           "alphabet": ALLCH + sessions.W1, "hs_out": 0.3, "hs_prompt": 0.2, "partial": [0, 3],
           "w": {"char": 45, "left": 40, "right": 10, "bs": 4, "write": 6, "prompt": 5, "enter": 2, "tab": 3, "up": 3, "down": 1, "word": 4}}
    navs = sessions.gen_sessions(rng, 300 if q else 6000, nav, sid0=4000000)
    scripts += tabs + navs + typed_sessions(rng, 200 if q else 5000, 5000000, load_catalogue()[1])
    validate_cli(ctx, vh, scripts, "C03", "c03", shards=12)
    if not q:
        # Miri is slow here (about 15 s per session): a small sample of short boundary sessions
        short = [x for x in scripts if len(x["steps"]) <= 25]
        run_miri(ctx, rng.sample(short, min(24, len(short))), "c03")
    ctx.assumptions.append("the observer is the real code built with debug assertions and overflow checks (std's unsafe-precondition "
                           "checks abort); thorough adds Miri; sizes above 64 are covered by the closure argument only")
    return ctx.finish("(i) TLC: implementation-shaped EditorBuf / HistoryBuf models assert the precondition of every unchecked slice, str, copy "
                      "and unwrap operation in every reachable state for small buffers and refine Editor / History; (ii) every transition "
                      "of MC_Cli for every pair of buffer sizes 0..%d replayed on the real code with dead buffer bytes poisoned; (iii) random "
                      "streams over all 256 byte values with Cli::write / set_prompt interleaved, sizes 0..64; a panic, abort or signal "
                      "is a violation; structural state invariants validated by TLC" % top)


# ---------------------------------------------------------------------------------------

def replay(pid, path):
    """Re-execute a replay file against the current tree and validate again."""
    with open(path) as f:
        rp = json.load(f)
    ctx = vlib.Ctx(pid, "replay", 0)
    vh = vlib.build_harness()
    if rp.get("kind") == "mod":
        rec, p = vlib.vh_mod(vh, ctx.workdir, [rp["request"]], "replay")
        if p.returncode != 0:
            print("VIOLATION property=%s replay=%s" % (pid, path))
            return 1
        if rp["request"].get("m") == "parse":
            res = vlib.tlc_validate(ctx.workdir, "DeriveTrace", rec, {"CATALOGUE": CATALOGUE, "FOCUS": pid if pid in ("C09", "C12") else "ALL"})
        else:
            res = vlib.tlc_validate(ctx.workdir, "ModTrace", rec)
        if res["accepted"]:
            print("replay: accepted (no violation on the current tree)")
            return 0
        print(res.get("detail", ""))
        print("VIOLATION property=%s replay=%s" % (pid, path))
        return 1
    if rp.get("kind") == "cli":
        before = len(ctx.violations)
        ctx.max_files = 0
        validate_cli(ctx, vh, [rp["script"]], rp.get("focus", "ALL"), "replay", shards=1)
        if len(ctx.violations) > before:
            print("VIOLATION property=%s replay=%s" % (pid, path))
            return 1
        print("replay: accepted (no violation on the current tree)")
        return 0
    raise vlib.ToolError("unknown replay kind")
