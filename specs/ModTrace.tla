------------------------------ MODULE ModTrace ------------------------------
(***************************************************************************)
(* Trace validation for the library's internal modules.  Every record of   *)
(* the ndjson file named by environment variable TRACE was produced by the *)
(* real code (harness `vh mod`); it is accepted iff it is a behaviour of   *)
(* the corresponding specification module.  One TLC step per record; the   *)
(* run is accepted iff all records are consumed (POSTCONDITION).           *)
(***************************************************************************)
EXTENDS Decoder, Editor, History, Tokenizer, Args, TLC, Json, IOUtils, FiniteSets

Rec == ndJsonDeserialize(IOEnv.TRACE)

VARIABLE l      \* number of records accepted so far

Chk(tag, cond) == IF cond THEN TRUE ELSE PrintT("FAILED|" \o tag[1]) /\ PrintT(tag) /\ FALSE

-----------------------------------------------------------------------------
(* decoder: some run of the (nondeterministic where open) specification    *)
(* decoder produces exactly the logged events                              *)
EvMatch(ev, logged) ==
    /\ ev.k = logged.k
    /\ ev.k = "char" => Encode(ev.cp) = logged.t

RECURSIVE DecRun(_, _, _, _)
DecRun(bytes, evs, i, S) ==
    IF i > Len(bytes) THEN TRUE
    ELSE LET S2 == UNION {{o.d : o \in {o \in Feed(d, bytes[i]) : EvMatch(o.ev, evs[i])}} : d \in S}
         IN Chk(<<"decoder event", i, bytes[i], evs[i]>>, S2 # {}) /\ DecRun(bytes, evs, i + 1, S2)

DecOk(r) == Len(r.evs) = Len(r.bytes) /\ DecRun(r.bytes, r.evs, 1, {DecInit})

(* bare UTF-8 accumulator: bytes >= 0x20 only *)
DecStep2(S, b) == UNION {DecStep(p, b) : p \in S}
RECURSIVE AccRun(_, _, _, _)
AccRun(bytes, evs, i, S) ==
    IF i > Len(bytes) THEN TRUE
    ELSE LET S2 == {o.pending : o \in {o \in DecStep2(S, bytes[i]) : (IF o.emit = <<>> THEN <<>> ELSE Encode(o.emit[1])) = evs[i]}}
         IN Chk(<<"accumulator", i, bytes[i], evs[i]>>, S2 # {}) /\ AccRun(bytes, evs, i + 1, S2)

-----------------------------------------------------------------------------
(* editor *)
RECURSIVE InsertText(_, _, _, _)
InsertText(e, t, i, cap) == IF i > Len(t) THEN e ELSE InsertText(Insert(e, t[i], cap), t, i + 1, cap)

(* delete the character at the cursor (Editor::remove) *)
RemoveAt(e) ==
    IF e.cur >= Len(e.line) THEN e
    ELSE Ed(SubSeq(e.line, 1, e.cur) \o SubSeq(e.line, e.cur + 2, Len(e.line)), e.cur)

EdStepOk(cap, pre, op, st) ==
    LET post == Ed(Decode(st.line), st.cur) IN
    /\ Chk(<<"editor state well-formed", st>>, post.line # Bad /\ EdOk(post, cap) /\ st.len = Len(post.line))
    /\ EdOk(pre, cap)
    /\ IF op.o = "ins" THEN
          LET t == Decode(op.t)
              fits == Bytes(pre.line) + Len(op.t) <= cap
          IN /\ Chk(<<"insert accepted iff fits", op, st>>, st.ret.some = fits)
             /\ Chk(<<"insert result", op, st>>,
                    post = IF fits THEN InsertText(pre, t, 1, cap) ELSE pre)
             /\ Chk(<<"insert returns the text", op, st>>, fits => st.ret.t = op.t)
       ELSE IF op.o = "bs" THEN
          /\ Chk(<<"backspace", op, st>>, post = Backspace(pre))
          /\ Chk(<<"backspace reports move", op, st>>, st.ret.some = (pre.cur > 0))
       ELSE IF op.o = "remove" THEN Chk(<<"remove", op, st>>, post = RemoveAt(pre))
       ELSE IF op.o = "left" THEN
          /\ Chk(<<"left", op, st>>, post = Left(pre))
          /\ Chk(<<"left reports move", op, st>>, st.ret.some = (pre.cur > 0))
       ELSE IF op.o = "right" THEN
          /\ Chk(<<"right", op, st>>, post = Right(pre))
          /\ Chk(<<"right reports move", op, st>>, st.ret.some = (pre.cur < Len(pre.line)))
       ELSE IF op.o = "clear" THEN Chk(<<"clear", op, st>>, post = Clear)
       ELSE Chk(<<"unknown editor op", op>>, FALSE)

RECURSIVE EdRun(_, _, _)
EdRun(r, i, pre) ==
    IF i > Len(r.ops) THEN TRUE
    ELSE /\ EdStepOk(r.cap, pre, r.ops[i], r.sts[i])
         /\ EdRun(r, i + 1, Ed(Decode(r.sts[i].line), r.sts[i].cur))

EditorOk(r) == Len(r.sts) = Len(r.ops) /\ EdRun(r, 1, EdInit)

-----------------------------------------------------------------------------
(* history *)
RECURSIVE DecodeEach(_, _, _)
DecodeEach(bss, i, acc) == IF i > Len(bss) THEN acc ELSE DecodeEach(bss, i + 1, Append(acc, Decode(bss[i])))
DecodeList(bss) == DecodeEach(bss, 1, <<>>)

HsOf(st) == Hs(DecodeList(st.hist), st.nav)

HsStepOk(hcap, pre, op, st) ==
    LET post == HsOf(st)
        ret == DecodeList(st.ret)
    IN
    /\ Chk(<<"history state well-formed", st>>,
           st.nav >= 0 /\ (\A i \in 1..Len(post.hist) : post.hist[i] # Bad) /\ HsOk(post, hcap))
    /\ IF op.o = "push" THEN Chk(<<"push", op, st>>, post \in Push(pre, Decode(op.t), hcap))
       ELSE IF op.o = "older" THEN
          LET x == Older(pre) IN
          /\ Chk(<<"older: state", op, st>>, post = x.s)
          /\ Chk(<<"older: returned entry", op, st>>, ret = x.show)
       ELSE IF op.o = "newer" THEN
          Chk(<<"newer", op, st>>,
              \E x \in Newer(pre) :
                 /\ post = x.s
                 /\ ret = IF x.show = <<>> \/ x.show = << <<>> >> THEN <<>> ELSE x.show)
       ELSE Chk(<<"unknown history op", op>>, FALSE)

RECURSIVE HsRun(_, _, _)
HsRun(r, i, pre) ==
    IF i > Len(r.ops) THEN TRUE
    ELSE /\ HsStepOk(r.hcap, pre, r.ops[i], r.sts[i])
         /\ HsRun(r, i + 1, HsOf(r.sts[i]))

HistoryOk(r) == Len(r.sts) = Len(r.ops) /\ HsRun(r, 1, HsInit)

-----------------------------------------------------------------------------
TokensOk(r) ==
    LET line == Decode(r.line)
        toks == DecodeList(r.toks)
    IN /\ Chk(<<"tokens are well-formed text", r>>, \A i \in 1..Len(toks) : toks[i] # Bad)
       /\ Chk(<<"tokenisation", r, Tokenize(line)>>, toks \in TokenizeSet(line))
       /\ Chk(<<"is_empty", r>>, r.empty = (toks = <<>>))

ItemOf(j) == Item(j.k, Decode(j.t))
RECURSIVE ItemsFrom(_, _, _)
ItemsFrom(js, i, acc) == IF i > Len(js) THEN acc ELSE ItemsFrom(js, i + 1, Append(acc, ItemOf(js[i])))

ArgsOk(r) ==
    LET toks == DecodeList(r.toks)
        items == ItemsFrom(r.items, 1, <<>>)
        want == Classify(toks)
        NoneItem == Item("none", <<>>)
        At(k) == IF k <= Len(want) THEN want[k] ELSE NoneItem          \* 1-based
        origin == Origin(toks)
    IN /\ Chk(<<"classification", r, want>>, items = want)
       /\ Chk(<<"rejoin", r>>, Rejoin(items) = Flatten(toks))
       \* the items do not depend on how the iterator is consumed
       /\ "nth" \in DOMAIN r =>
            /\ Chk(<<"nth(k) on a fresh iterator", r.nth, want>>,
                   Len(r.nth) = Len(want) + 1 /\ \A k \in 1..Len(r.nth) : ItemOf(r.nth[k]) = At(k))
            /\ Chk(<<"skip(k).next()", r.skip, want>>,
                   Len(r.skip) = Len(want) + 1 /\ \A k \in 1..Len(r.skip) : ItemOf(r.skip[k]) = At(k))
            /\ Chk(<<"next() then nth(k)", r.next_nth, want>>,
                   \A k \in 1..Len(r.next_nth) : ItemOf(r.next_nth[k]) = At(k + 1))
            \* handing the remaining tokens over (into_args): what remains after k items are the tokens after
            \* the token item k came from, classified on their own (left open once `--` has been consumed)
            /\ Chk(<<"into_args after k items", r.split, toks>>,
                   \A k \in 0..Len(want) :
                      LET upto == IF k = 0 THEN 0 ELSE origin[k]
                          ddSeen == \E j \in 1..upto : toks[j] = <<DASH, DASH>>
                      IN ddSeen \/ ItemsFrom(r.split[k + 1], 1, <<>>) = Classify(SubSeq(toks, upto + 1, Len(toks))))

-----------------------------------------------------------------------------
(* the library's own text utilities on scalar cp between neighbours a, b   *)
ScalarOk(r) ==
    LET s == <<r.a, r.cp, r.b>>
        s2 == <<r.a, r.cp, r.alt>>
        s3 == <<r.a, r.alt>>
    IN /\ Chk(<<"encode_utf8", r>>, IsScalar(r.cp) /\ r.enc = Encode(r.cp))
       /\ Chk(<<"char_count", r>>, r.count = CharCount(s))
       /\ Chk(<<"char_byte_index", r>>, \A k \in 0..4 : r.idx[k + 1] = CharByteIndex(s, k))
       /\ Chk(<<"char_pop_front", r>>, r.pop_c = r.cp /\ r.pop_rest = Encode(r.b))
       /\ Chk(<<"common_prefix_len same", r>>, r.cpl_same = Bytes(s))
       /\ Chk(<<"common_prefix_len differing neighbour", r>>, r.cpl_b = CommonPrefixLen(s, s2))
       /\ Chk(<<"common_prefix_len differing in last octet", r>>, r.cpl_x = CommonPrefixLen(s, s3))

-----------------------------------------------------------------------------
RecOk(r) ==
    IF r.m = "dec" THEN DecOk(r)
    ELSE IF r.m = "accum" THEN AccRun(r.bytes, r.evs, 1, {<<>>})
    ELSE IF r.m = "editor" THEN EditorOk(r)
    ELSE IF r.m = "history" THEN HistoryOk(r)
    ELSE IF r.m = "tokens" THEN TokensOk(r)
    ELSE IF r.m = "args" THEN ArgsOk(r)
    ELSE IF r.m = "scalar" THEN ScalarOk(r)
    ELSE Chk(<<"unknown record kind", r.m>>, FALSE)

Init == l = 0
Next == l < Len(Rec) /\ RecOk(Rec[l + 1]) /\ l' = l + 1
Spec == Init /\ [][Next]_l

Accepted ==
    LET n == TLCGet("stats").diameter - 1 IN
    IF n = Len(Rec) THEN PrintT("ACCEPTED|" \o ToString(n))
    ELSE PrintT("REJECTED-AT|" \o ToString(n + 1)) /\ FALSE
=============================================================================
