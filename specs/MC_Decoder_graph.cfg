SPECIFICATION SpecGraph
VIEW View
ACTION_CONSTRAINT Emit
INVARIANT TypeInv
CHECK_DEADLOCK FALSE
