------------------------------- MODULE MC_Cli -------------------------------
(* Design-level model of the whole CLI for small buffers: all interleavings *)
(* of keys, application writes and prompt changes.  Invariants: structural  *)
(* state invariants and C06's Sync (the modelled output protocol keeps the  *)
(* terminal showing prompt + line with the cursor in place).  Every         *)
(* explored transition is printed with a shortest path to be replayed on    *)
(* the real Cli and validated by CliTrace.                                  *)
EXTENDS Cli, TLC, Json

CONSTANTS CmdCap, HistCap, Chars, NameSet, HistOn, AcOn, HelpOn, WithApi

VARIABLES st, term, path

T(s) == s   \* readability: texts are written as tuples of scalars below

Names == IF NameSet = "leds" THEN {<<103, 101, 116, 45, 108, 101, 100>>, <<101, 120, 105, 116>>,
                                    <<103, 101, 116, 45, 97, 100, 99>>, <<103, 111>>}
         ELSE IF NameSet = "tiny" THEN {<<97, 98>>, <<97, 233>>, <<98>>}
         ELSE {}

Cfg == [cmd |-> CmdCap, hcap |-> HistCap, names |-> Names, histOn |-> HistOn, acOn |-> AcOn, helpOn |-> HelpOn]

Prompts == << <<36, 32>>, <<>>, <<1078, 62, 32>> >>           \* "$ ", "", "ж> "
Chunk(m, t) == [m |-> m, t |-> t]
Scripts == << [chunks |-> <<>>, setp |-> FALSE, p |-> <<>>],
              [chunks |-> <<Chunk("w", <<120>>)>>, setp |-> FALSE, p |-> <<>>],
              [chunks |-> <<Chunk("wl", <<120>>), Chunk("w", <<>>)>>, setp |-> TRUE, p |-> Prompts[3]],
              [chunks |-> <<Chunk("w", <<120, 10, 121>>)>>, setp |-> TRUE, p |-> Prompts[2]] >>
Writes == << <<>>, <<Chunk("w", <<120>>)>>, <<Chunk("w", <<120, 10>>)>>, <<Chunk("wl", <<120>>), Chunk("w", <<121>>)>> >>

Ev(e, k, cp, n) == [e |-> e, k |-> k, cp |-> cp, n |-> n]

Init == st = StInit(Prompts[1]) /\ term = [TermInit EXCEPT !.row = <<36>>, !.col = 2] /\ path = <<>>

Apply(ev, o) ==
    /\ st' = o.st
    \* trailing blank cells are dropped after each call: they never influence what is
    \* shown later (every terminal operation commutes with TrimRight up to trailing
    \* blanks), and Tab can leave an unbounded number of them behind
    /\ term' = LET t2 == TermFeedAll([term EXCEPT !.rows = <<>>], o.out) IN [t2 EXCEPT !.row = TrimRight(t2.row)]
    /\ path' = Append(path, ev)

KeyEv == \/ \E c \in Chars : \E o \in KeyStep(Cfg, st, Key("char", c), Scripts[1]) : Apply(Ev("key", "char", c, 0), o)
         \/ \E k \in {"bs", "left", "right", "up", "down", "tab"} :
               \E o \in KeyStep(Cfg, st, Key(k, 0), Scripts[1]) : Apply(Ev("key", k, 0, 0), o)
         \/ \E n \in 1..Len(Scripts) :
               \E o \in KeyStep(Cfg, st, Key("enter", 0), Scripts[n]) : Apply(Ev("key", "enter", 0, n), o)

ApiEv == /\ WithApi
         /\ \/ \E n \in 1..Len(Writes) : \E o \in ApiWrite(Cfg, st, Writes[n]) : Apply(Ev("write", "", 0, n), o)
            \/ \E n \in 1..Len(Prompts) : \E o \in ApiSetPrompt(Cfg, st, Prompts[n]) : Apply(Ev("prompt", "", 0, n), o)

Next == KeyEv \/ ApiEv
Spec == Init /\ [][Next]_<<st, term, path>>

View == <<st, term>>
Emit == PrintT("T|" \o ToJson(path'))

ASSUME PrintT("S|" \o ToJson(Scripts)) /\ PrintT("W|" \o ToJson(Writes)) /\ PrintT("P|" \o ToJson(Prompts))

Inv == StOk(Cfg, st)
SyncInv == Sync(term, st)
SmallRow == Len(term.row) <= 10 /\ term.col <= 10

(* after Enter the line is empty and a fresh prompt row has been started *)
EnterProp == [][(path' # path /\ path'[Len(path')].k = "enter") =>
                   (st'.line = <<>> /\ st'.cur = 0 /\ Len(term'.rows) >= 1)]_<<st, term, path>>
=============================================================================
