----------------------------- MODULE Terminal -----------------------------
(***************************************************************************)
(* An ECMA-48 / VT100 terminal, as far as a line editor needs it: it       *)
(* interprets the BYTES the library emits, so any byte sequence that       *)
(* renders correctly is accepted.  Unbounded width (no wrapping), one cell *)
(* per scalar value.                                                       *)
(*                                                                         *)
(* State (a record):                                                       *)
(*   row   : cells of the line the cursor is on (scalars)                  *)
(*   col   : cursor column, 0-based                                        *)
(*   rows  : rows completed (left by LF) since `rows` was last reset       *)
(*   mode  : "ground" | "esc" | "csi"                                      *)
(*   n, has, more : first numeric parameter of the CSI sequence being read *)
(*   pend  : octets of an unfinished UTF-8 character                       *)
(*   err   : something was received that this terminal does not understand *)
(***************************************************************************)
EXTENDS Utf8

TermInit == [row |-> <<>>, col |-> 0, rows |-> <<>>, mode |-> "ground",
             n |-> 0, has |-> FALSE, more |-> FALSE, pend |-> <<>>, err |-> FALSE]

Max(a, b) == IF a > b THEN a ELSE b
Min(a, b) == IF a < b THEN a ELSE b

Blanks(k) == [i \in 1..k |-> 32]

RECURSIVE TrimRight(_)
TrimRight(r) == IF r # <<>> /\ r[Len(r)] = 32 THEN TrimRight(SubSeq(r, 1, Len(r) - 1)) ELSE r

(* a printable scalar: overwrite the cell under the cursor and advance *)
Put(t, cp) ==
    IF cp < 32 \/ cp = 127 \/ (cp >= 128 /\ cp <= 159) THEN [t EXCEPT !.err = TRUE]
    ELSE LET padded == IF t.col > Len(t.row) THEN t.row \o Blanks(t.col - Len(t.row)) ELSE t.row
             row2 == IF t.col + 1 <= Len(padded) THEN [padded EXCEPT ![t.col + 1] = cp]
                     ELSE Append(padded, cp)
         IN [t EXCEPT !.row = row2, !.col = t.col + 1]

P1(t) == IF t.has /\ t.n > 0 THEN t.n ELSE 1     \* parameter with default 1

EraseInLine(t) ==
    LET k == IF t.has THEN t.n ELSE 0 IN
    IF k = 0 THEN [t EXCEPT !.row = SubSeq(t.row, 1, Min(t.col, Len(t.row)))]
    ELSE IF k = 1 THEN [t EXCEPT !.row = [i \in 1..Len(t.row) |-> IF i <= t.col + 1 THEN 32 ELSE t.row[i]]]
    ELSE IF k = 2 THEN [t EXCEPT !.row = <<>>]
    ELSE [t EXCEPT !.err = TRUE]

InsertBlanks(t) ==
    IF t.col >= Len(t.row) THEN t
    ELSE [t EXCEPT !.row = SubSeq(t.row, 1, t.col) \o Blanks(P1(t)) \o SubSeq(t.row, t.col + 1, Len(t.row))]

DeleteCells(t) ==
    IF t.col >= Len(t.row) THEN t
    ELSE [t EXCEPT !.row = SubSeq(t.row, 1, t.col) \o SubSeq(t.row, t.col + 1 + P1(t), Len(t.row))]

CsiFinalByte(t, b) ==
    LET g == [t EXCEPT !.mode = "ground"] IN
    IF b = 68 THEN [g EXCEPT !.col = Max(t.col - P1(t), 0)]            \* CUB
    ELSE IF b = 67 THEN [g EXCEPT !.col = t.col + P1(t)]               \* CUF
    ELSE IF b = 71 THEN [g EXCEPT !.col = P1(t) - 1]                   \* CHA
    ELSE IF b = 75 THEN EraseInLine(g)                                 \* EL
    ELSE IF b = 64 THEN InsertBlanks(g)                                \* ICH
    ELSE IF b = 80 THEN DeleteCells(g)                                 \* DCH
    ELSE IF b = 109 THEN g                                             \* SGR: ignored
    ELSE [g EXCEPT !.err = TRUE]

TermFeed(t, b) ==
    IF t.pend # <<>> THEN
        IF IsCont(b) /\ (Len(t.pend) > 1 \/ SecondOk(t.pend[1], b)) THEN
            LET p2 == Append(t.pend, b) IN
            IF Len(p2) = LeadLen(p2[1]) THEN Put([t EXCEPT !.pend = <<>>], ValueAt(p2, 1))
            ELSE [t EXCEPT !.pend = p2]
        ELSE [t EXCEPT !.err = TRUE, !.pend = <<>>]
    ELSE IF t.mode = "esc" THEN
        IF b = 91 THEN [t EXCEPT !.mode = "csi", !.n = 0, !.has = FALSE, !.more = FALSE]
        ELSE [t EXCEPT !.err = TRUE, !.mode = "ground"]
    ELSE IF t.mode = "csi" THEN
        IF b >= 48 /\ b <= 57 THEN
            IF t.more THEN t ELSE [t EXCEPT !.n = t.n * 10 + (b - 48), !.has = TRUE]
        ELSE IF b = 59 THEN [t EXCEPT !.more = TRUE]
        ELSE IF b >= 64 /\ b <= 126 THEN CsiFinalByte(t, b)
        ELSE [t EXCEPT !.err = TRUE, !.mode = "ground"]
    ELSE \* ground
        IF b = 27 THEN [t EXCEPT !.mode = "esc"]
        ELSE IF b = 13 THEN [t EXCEPT !.col = 0]
        ELSE IF b = 10 THEN [t EXCEPT !.rows = Append(t.rows, t.row), !.row = <<>>]
        ELSE IF b = 8 THEN [t EXCEPT !.col = Max(t.col - 1, 0)]
        ELSE IF b = 127 THEN t
        ELSE IF b < 32 THEN [t EXCEPT !.err = TRUE]
        ELSE IF b < 128 THEN Put(t, b)
        ELSE IF LeadLen(b) >= 2 THEN [t EXCEPT !.pend = <<b>>]
        ELSE [t EXCEPT !.err = TRUE]

RECURSIVE TermFeedFrom(_, _, _)
TermFeedFrom(t, bs, i) == IF i > Len(bs) THEN t ELSE TermFeedFrom(TermFeed(t, bs[i]), bs, i + 1)
TermFeedAll(t, bs) == TermFeedFrom(t, bs, 1)

(* nothing half-read is left over *)
TermQuiet(t) == t.mode = "ground" /\ t.pend = <<>>

(* the line the cursor is on shows `text` with the cursor at column c *)
Shows(t, text, c) == ~t.err /\ TermQuiet(t) /\ TrimRight(t.row) = TrimRight(text) /\ t.col = c

=============================================================================
