SPECIFICATION SpecBytes
INVARIANT BytesInv
CHECK_DEADLOCK FALSE
