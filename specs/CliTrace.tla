------------------------------ MODULE CliTrace ------------------------------
(***************************************************************************)
(* Trace validation of the real Cli against the specification.             *)
(*                                                                         *)
(* TRACE names an ndjson file recorded by the harness (`vh cli`): one      *)
(* record per API call (CliBuilder::build, process_byte, write,            *)
(* set_prompt) with the inputs, the sink operations, the handler calls and *)
(* the projected state after the call.  FOCUS names the property whose     *)
(* conjuncts are enforced, so that a check reports only its own property.  *)
(*                                                                         *)
(* Each record is checked as a Hoare triple from the state logged by the   *)
(* previous record (check-and-adopt).  What the library does not own is    *)
(* carried by the specification: the decoder's memory (decoding must       *)
(* depend on the byte sequence only), the terminal contents, and whether   *)
(* the terminal can be expected to be in step (after a failed sink call it *)
(* cannot, until the line is redrawn).                                     *)
(***************************************************************************)
EXTENDS Cli, TLC, Json, IOUtils

Rec == ndJsonDeserialize(IOEnv.TRACE)
Focus == IOEnv.FOCUS

VARIABLES l, cfg, dec, term, insync

vars == <<l, cfg, dec, term, insync>>

Chk(tag, cond) == IF cond THEN TRUE ELSE PrintT("FAILED|" \o tag[1]) /\ PrintT(tag) /\ FALSE

-----------------------------------------------------------------------------
(* reading records *)

RECURSIVE DecodeEach(_, _, _)
DecodeEach(bss, i, acc) == IF i > Len(bss) THEN acc ELSE DecodeEach(bss, i + 1, Append(acc, Decode(bss[i])))
DecodeList(bss) == DecodeEach(bss, 1, <<>>)

(* The logged state, made structurally sound: a cursor or recall position   *)
(* outside its range (a defect that C05 / C10 / C03 report through RawOk)    *)
(* is clamped, so that every other property can still be judged on the line  *)
(* the implementation really holds.                                          *)
Clamp(x, hi) == IF x < 0 THEN 0 ELSE IF x > hi THEN hi ELSE x
Abs(s) == LET line == Decode(s.line)
              hist == DecodeList(s.hist)
          IN St(line, Clamp(s.cur, Len(line)), hist, Clamp(s.nav, Len(hist)), Decode(s.prompt))
RawOk(s) == s.cur >= 0 /\ s.cur <= Len(Decode(s.line)) /\ s.nav >= 0 /\ s.nav <= Len(s.hist)

RECURSIVE ChunksFrom(_, _, _)
ChunksFrom(cs, i, acc) ==
    IF i > Len(cs) THEN acc ELSE ChunksFrom(cs, i + 1, Append(acc, [m |-> cs[i].m, t |-> Decode(cs[i].t)]))
AbsChunks(cs) == ChunksFrom(cs, 1, <<>>)

NoHs == [chunks |-> <<>>, setp |-> FALSE, p |-> <<>>]
HsOfRec(r) == IF "hs" \in DOMAIN r
              THEN [chunks |-> AbsChunks(r.hs.chunks), setp |-> r.hs.setp, p |-> Decode(r.hs.p)]
              ELSE NoHs

Perr(r) == "hs" \in DOMAIN r /\ "perr" \in DOMAIN r.hs /\ r.hs.perr > 0
ErrRow(row) == Len(row) >= 6 /\ SubSeq(row, 1, 6) = <<101, 114, 114, 111, 114, 58>>      \* "error:"

ItemOf(j) == Item(j.k, Decode(j.t))
RECURSIVE ItemsFrom(_, _, _)
ItemsFrom(js, i, acc) == IF i > Len(js) THEN acc ELSE ItemsFrom(js, i + 1, Append(acc, ItemOf(js[i])))
RECURSIVE CallsFrom(_, _, _)
CallsFrom(cs, i, acc) ==
    IF i > Len(cs) THEN acc
    ELSE CallsFrom(cs, i + 1, Append(acc, Call(Decode(cs[i].name), ItemsFrom(cs[i].args, 1, <<>>))))
AbsCalls(cs) == CallsFrom(cs, 1, <<>>)

CfgOf(c) == [cmd |-> c.cmd, hcap |-> c.hcap,
             names |-> {Decode(c.names[i]) : i \in 1..Len(c.names)},
             histOn |-> c.hist, acOn |-> c.ac, helpOn |-> c.help]

RECURSIVE WrittenFrom(_, _, _)
WrittenFrom(ops, i, acc) ==
    IF i > Len(ops) THEN acc ELSE WrittenFrom(ops, i + 1, IF ops[i].k = "w" THEN acc \o ops[i].b ELSE acc)
(* all bytes the sink accepted during the call *)
Written(ops) == WrittenFrom(ops, 1, <<>>)

RECURSIVE BetweenFrom(_, _, _, _)
BetweenFrom(ops, i, inside, acc) ==
    IF i > Len(ops) THEN acc
    ELSE IF ops[i].k = "hb" THEN BetweenFrom(ops, i + 1, TRUE, acc)
    ELSE IF ops[i].k = "he" THEN BetweenFrom(ops, i + 1, FALSE, acc)
    ELSE BetweenFrom(ops, i + 1, inside, IF inside /\ ops[i].k = "w" THEN acc \o ops[i].b ELSE acc)
(* bytes written while the application's handler / closure was running *)
HandlerBytes(ops) == BetweenFrom(ops, 1, FALSE, <<>>)

RECURSIVE LastIdx(_, _, _, _)
LastIdx(ops, k, i, acc) == IF i > Len(ops) THEN acc ELSE LastIdx(ops, k, i + 1, IF ops[i].k = k THEN i ELSE acc)
(* C15: everything written has been followed by a flush *)
Flushed(ops) == LastIdx(ops, "w", 1, 0) <= LastIdx(ops, "f", 1, 0)

-----------------------------------------------------------------------------
(* which conjuncts a property enforces *)

EditKeys == {"none", "char", "bs", "left", "right"}

CmpLine(k) ==
    \/ Focus \in {"ALL", "C16", "C14"}
    \/ Focus = "C05"        \* the edited line after every key: recall and completion replace it, cursor at the end
    \/ Focus \in {"C04", "C17", "C02"} /\ k \in EditKeys
    \/ Focus = "C10" /\ k \in {"up", "down"}
    \/ Focus = "C11" /\ k = "tab"
    \/ Focus = "C01" /\ k = "enter"
    \/ Focus = "C13" /\ k \in {"write"}
    \/ Focus \in {"C06", "C17"} /\ k \in {"write", "prompt"}
CmpHist == Focus \in {"ALL", "C10", "C16", "C14"}
CmpCalls == Focus \in {"ALL", "C01", "C12", "C16", "C17", "C04", "C14", "C07", "C08"}
CmpPrompt == Focus \in {"ALL", "C01", "C06", "C13", "C16", "C14", "C17"}
ChkSync == Focus \in {"ALL", "C06", "C16", "C14", "C17"}
ChkFrame == Focus \in {"ALL", "C13"}
ChkFlush == Focus \in {"ALL", "C15"}
ChkUtf8 == Focus \in {"ALL", "C02"}
ChkFresh == Focus \in {"ALL", "C01"}
ChkRes == Focus \in {"ALL", "C14"}
ChkInv == Focus \in {"ALL", "C03", "C05", "C10", "C14"}

Match(out, k, r, post) ==
    /\ CmpLine(k) => (post.line = out.st.line /\ r.st.cur = out.st.cur)
    /\ CmpHist => (post.hist = out.st.hist /\ r.st.nav = out.st.nav)
    /\ CmpPrompt => post.prompt = out.st.prompt
    /\ CmpCalls => AbsCalls(r.calls) = out.calls

(* C14: a call during which the sink failed.  The line is as it was, as the *)
(* key would have left it, or cleared; history, prompt and the handler call  *)
(* are on either side of the call; nothing else.                             *)
FailMatch(out, r, pre, post) ==
    /\ \/ (post.line = pre.line /\ r.st.cur = pre.cur)
       \/ (post.line = out.st.line /\ r.st.cur = out.st.cur)
       \/ (post.line = <<>> /\ r.st.cur = 0)
    /\ \/ (post.hist = pre.hist /\ post.nav = pre.nav)
       \/ (post.hist = out.st.hist /\ post.nav = out.st.nav)
    /\ post.prompt \in {pre.prompt, out.st.prompt}
    /\ AbsCalls(r.calls) \in {<<>>, out.calls}

-----------------------------------------------------------------------------
(* checks on the output of one call *)

(* After a failed sink call the terminal may have been left in the middle of *)
(* an escape sequence or character; until the line is redrawn it is not      *)
(* judged (insync = FALSE), and the redraw is read by a terminal whose       *)
(* lexer has recovered.                                                      *)
TermBase == IF insync THEN [term EXCEPT !.rows = <<>>]
            ELSE [term EXCEPT !.rows = <<>>, !.mode = "ground", !.pend = <<>>, !.err = FALSE]
TermAfter(r) == TermFeedAll(TermBase, Written(r.ops))
(* a call that starts with CR (clear-line redraw, or the CR LF that ends a   *)
(* submitted line) redraws the whole line                                    *)
Redraws(r) == Written(r.ops) # <<>> /\ Written(r.ops)[1] = 13

RECURSIVE TrimEach(_, _, _)
TrimEach(rows, i, acc) == IF i > Len(rows) THEN acc ELSE TrimEach(rows, i + 1, Append(acc, TrimRight(rows[i])))
Trimmed(rows) == TrimEach(rows, 1, <<>>)

AllWellFormed(r, post) ==
    /\ post.line # Bad /\ post.prompt # Bad
    /\ \A i \in 1..Len(post.hist) : post.hist[i] # Bad
    /\ \A i \in 1..Len(r.calls) :
          /\ Decode(r.calls[i].name) # Bad
          /\ \A j \in 1..Len(r.calls[i].args) : Decode(r.calls[i].args[j].t) # Bad
    /\ Decode(Written(r.ops)) # Bad

(* conjuncts that apply to every successful call *)
Common(r, post, t2) ==
    /\ ChkFlush => Chk(<<"C15 written bytes not flushed at return", r.ops>>, r.res = "ok" => Flushed(r.ops))
    /\ ChkUtf8 => Chk(<<"C02 ill-formed UTF-8 handed out or echoed", r>>, AllWellFormed(r, post))
    /\ ChkSync => Chk(<<"C06 terminal does not show prompt + line with the cursor in place",
                         [row |-> t2.row, col |-> t2.col, err |-> t2.err], post>>,
                      \* (C17 ranges over all scalars, C1 controls included: the display is judged for the
                      \* others, one cell per scalar)
                      (r.res = "ok" /\ insync' /\ ~(Focus = "C17" /\ t2.err)) => Sync(t2, post))
    /\ ChkInv => Chk(<<"state invariant", r.st>>, RawOk(r.st) /\ StOk(cfg', post))
    /\ ChkRes => Chk(<<"C14 result does not report the sink failure", r.res, r.fired>>, (r.res = "err") <=> (r.fired > 0))

-----------------------------------------------------------------------------
(* one step per record *)

InitRec(r) ==
    LET post == Abs(r.st)
        t2 == TermFeedAll(TermInit, Written(r.ops))
    IN
    /\ cfg' = CfgOf(r.cfg)
    /\ dec' = DecInit
    /\ term' = t2
    /\ insync' = (r.res = "ok")
    /\ r.res = "ok" => Chk(<<"initial state", r.st>>, post = StInit(Decode(r.p)))
    /\ Common(r, post, t2)

ByteRec(r, pre, post) ==
    \E o \in Feed(dec, r.b) :
      LET t2 == TermAfter(r)
          key == o.ev
          hs == HsOfRec(r)
          text == ChunkText(hs.chunks)
          called == r.calls # <<>>
      IN
      /\ dec' = o.d
      /\ term' = t2
      /\ UNCHANGED cfg
      /\ insync' = (r.res = "ok" /\ (insync \/ Redraws(r)))
      /\ r.res = "ok" =>
            Chk(<<"key effect: state / handler calls are not an admissible outcome of the key",
                  Focus, key, pre, post, r.calls>>,
                \E out \in KeyStep(cfg, pre, key, hs) : Match(out, key.k, r, post))
      /\ (ChkRes /\ r.res = "err") =>
            Chk(<<"C14 state after a failed call is not the old line, the new line or an empty line",
                  key, pre, post, r.calls>>,
                \E out \in KeyStep(cfg, pre, key, hs) : FailMatch(out, r, pre, post))
      /\ (ChkFresh /\ key.k = "enter" /\ r.res = "ok" /\ insync /\ ~term.err) =>
            Chk(<<"C01 the line dispatched is not the line visible when Enter was pressed", term.row, pre>>,
                TrimRight(term.row) = TrimRight(pre.prompt \o pre.line))
      /\ (ChkFresh /\ key.k = "enter" /\ r.res = "ok") =>
            Chk(<<"C01 after Enter: empty line and one fresh prompt", post, t2.rows, t2.row, t2.col>>,
                /\ post.line = <<>> /\ post.cur = 0
                /\ Len(t2.rows) >= 1
                \* (the terminal's error flag is not consulted here: it is sticky and may have been
                \* raised by the echo of a character C06 excludes, e.g. a C1 control)
                /\ TermQuiet(t2) /\ TrimRight(t2.row) = TrimRight(post.prompt) /\ t2.col = Len(post.prompt))
      /\ (ChkFrame /\ key.k = "enter" /\ called /\ r.res = "ok") =>
            /\ Chk(<<"C13 handler output bytes are not the text with LF -> CR LF", HandlerBytes(r.ops), text>>,
                   HandlerBytes(r.ops) = Conv(text))
            /\ Chk(<<"C13 handler output is not framed on its own rows", t2.rows, Lines(text), t2.row, t2.col>>,
                   /\ ~t2.err
                   /\ LET body == <<TrimRight(term.row)>> \o Trimmed(Lines(text)) IN
                      \* a hand-written processor that rejects the command after writing: the library's
                      \* `error:` line follows the output on a row of its own
                      IF Perr(r) THEN /\ Len(t2.rows) = Len(body) + 1
                                      /\ SubSeq(Trimmed(t2.rows), 1, Len(body)) = body
                                      /\ ErrRow(t2.rows[Len(t2.rows)])
                      ELSE Trimmed(t2.rows) = body
                   /\ Shows(t2, post.prompt, Len(post.prompt)))
      /\ Common(r, post, t2)

WriteRec(r, pre, post) ==
    LET t2 == TermAfter(r)
        chunks == AbsChunks(r.chunks)
        text == ChunkText(chunks)
    IN
    /\ term' = t2
    /\ UNCHANGED <<cfg, dec>>
    /\ insync' = (r.res = "ok")
    /\ r.res = "ok" =>
          Chk(<<"write: state changed", pre, post>>,
              \E out \in ApiWrite(cfg, pre, chunks) : Match(out, "write", r, post))
    /\ (ChkRes /\ r.res = "err") =>
          Chk(<<"C14 state after a failed write", pre, post>>,
              \E out \in ApiWrite(cfg, pre, chunks) : FailMatch(out, r, pre, post))
    /\ (ChkFrame /\ r.res = "ok") =>
          /\ Chk(<<"C13 written bytes are not the text with LF -> CR LF", HandlerBytes(r.ops), text>>,
                 HandlerBytes(r.ops) = Conv(text))
          /\ Chk(<<"C13 output is not framed on its own rows above the redisplayed line", t2.rows, Lines(text), t2.row, t2.col>>,
                 /\ ~t2.err
                 /\ Trimmed(t2.rows) = Trimmed(Lines(text))
                 /\ Sync(t2, post))
    /\ Common(r, post, t2)

PromptRec(r, pre, post) ==
    LET t2 == TermAfter(r) IN
    /\ term' = t2
    /\ UNCHANGED <<cfg, dec>>
    /\ insync' = (r.res = "ok")
    /\ r.res = "ok" =>
          Chk(<<"set_prompt: state", pre, post>>,
              \E out \in ApiSetPrompt(cfg, pre, Decode(r.p)) : Match(out, "prompt", r, post))
    /\ (ChkRes /\ r.res = "err") =>
          Chk(<<"C14 state after a failed set_prompt", pre, post>>,
              \E out \in ApiSetPrompt(cfg, pre, Decode(r.p)) : FailMatch(out, r, pre, post))
    /\ Common(r, post, t2)

RecStep(r) ==
    IF r.ev = "init" THEN InitRec(r)
    ELSE LET pre == Abs(Rec[l].st)
             post == Abs(r.st)
         IN IF r.ev = "byte" THEN ByteRec(r, pre, post)
            ELSE IF r.ev = "write" THEN WriteRec(r, pre, post)
            ELSE IF r.ev = "prompt" THEN PromptRec(r, pre, post)
            ELSE Chk(<<"unknown record", r.ev>>, FALSE) /\ UNCHANGED <<cfg, dec, term, insync>>

Init == l = 0 /\ cfg = [cmd |-> 0] /\ dec = DecInit /\ term = TermInit /\ insync = FALSE
Next == l < Len(Rec) /\ RecStep(Rec[l + 1]) /\ l' = l + 1
Spec == Init /\ [][Next]_vars

Accepted ==
    LET n == TLCGet("stats").diameter - 1 IN
    IF n = Len(Rec) THEN PrintT("ACCEPTED|" \o ToString(n))
    ELSE PrintT("REJECTED-AT|" \o ToString(n + 1)) /\ FALSE
=============================================================================
