SPECIFICATION Spec
CONSTANTS
  MaxToks = 3
INVARIANT Inv
CHECK_DEADLOCK FALSE
