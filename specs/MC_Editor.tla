----------------------------- MODULE MC_Editor -----------------------------
(* Closed state graph of the ideal editor for one buffer size; every       *)
(* explored transition is printed with a shortest path leading to it, to   *)
(* be replayed on the real Editor and on the real Cli.                     *)
EXTENDS Editor, TLC, Json

CONSTANTS Cap, Chars

VARIABLES e, path

Op(o, c) == [o |-> o, c |-> c]
Ops == {Op("ins", c) : c \in Chars} \cup {Op("bs", 0), Op("left", 0), Op("right", 0), Op("remove", 0), Op("clear", 0)}

RemoveAt(x) ==
    IF x.cur >= Len(x.line) THEN x
    ELSE Ed(SubSeq(x.line, 1, x.cur) \o SubSeq(x.line, x.cur + 2, Len(x.line)), x.cur)

Apply(x, op) ==
    IF op.o = "ins" THEN Insert(x, op.c, Cap)
    ELSE IF op.o = "bs" THEN Backspace(x)
    ELSE IF op.o = "left" THEN Left(x)
    ELSE IF op.o = "right" THEN Right(x)
    ELSE IF op.o = "remove" THEN RemoveAt(x)
    ELSE Clear

Init == e = EdInit /\ path = <<>>
Next == \E op \in Ops : e' = Apply(e, op) /\ path' = Append(path, op)
Spec == Init /\ [][Next]_<<e, path>>

View == e
Emit == PrintT("T|" \o ToJson(path'))

Inv == EdOk(e, Cap)

(* a rejected character changes nothing; an accepted one lengthens the line by one *)
StepProp == [][\A c \in Chars :
                  (path' = Append(path, Op("ins", c))) =>
                      IF Fits(e, c, Cap) THEN Len(e'.line) = Len(e.line) + 1 /\ e'.cur = e.cur + 1
                      ELSE e' = e]_<<e, path>>
=============================================================================
