SPECIFICATION SpecLines
CONSTANTS
  MaxToks = 0
  MaxLen = 0
  MaxLine = 5
INVARIANT LineInv
CHECK_DEADLOCK FALSE
