SPECIFICATION Spec
CONSTANTS
  HCap = 6
  MaxSubs = 5
VIEW ViewLaw
CONSTRAINT Bound
INVARIANT Inv
INVARIANT Law
CHECK_DEADLOCK FALSE
