--------------------------- MODULE MC_Autocomplete ---------------------------
(* For every non-empty subset of a pool of names, EVERY order of it (help   *)
(* appended last, as the Cli does), every line `blank? prefix blank*`,      *)
(* every cursor position and every buffer size: the implementation-shaped  *)
(* merge yields an outcome that Complete admits for the set.                *)
EXTENDS AutocompleteBuf, TLC, FiniteSets

CONSTANT MaxCap

Pool == {<<103, 111>>, <<103, 101, 116>>, <<103, 101, 116, 45, 97>>, <<1078, 1072>>, <<1078, 1073>>, <<104>>, <<104, 101, 108, 112, 45, 109>>}

VARIABLES names, line, cur, cap
vars == <<names, line, cur, cap>>

Perms(S) == {f \in [1..Cardinality(S) -> S] : \A i, j \in 1..Cardinality(S) : i # j => f[i] # f[j]}

Prefixes(S) == UNION {{SubSeq(n, 1, k) : k \in 1..Len(n)} : n \in S}
Lines(S) == UNION {{pre \o w \o post : pre \in {<<>>, <<32>>}, post \in {<<>>, <<32>>, <<32, 32>>}} : w \in Prefixes(S) \cup {<<122>>}}

Init == /\ names \in UNION {Perms(S) : S \in {T \in SUBSET Pool : Cardinality(T) \in 1..3}}
        /\ line = <<>> /\ cur = 0 /\ cap = 0
Next == /\ line = <<>>
        /\ UNCHANGED names
        /\ line' \in Lines({names[i] : i \in 1..Len(names)} \cup {HelpName})
        /\ cur' \in 0..Len(line')
        /\ cap' \in Bytes(line')..MaxCap
Spec == Init /\ [][Next]_vars

Inv == line # <<>> =>
         LET set == {names[i] : i \in 1..Len(names)} \cup {HelpName}
             got == CompleteImpl(Append(names, HelpName), line, cur, cap)
         IN /\ got \in Complete(set, line, cur, cap)
            /\ Bytes(got.line) <= cap
=============================================================================
