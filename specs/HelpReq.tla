------------------------------ MODULE HelpReq ------------------------------
(***************************************************************************)
(* Which submitted lines are help requests (help.rs).                      *)
(* HelpKind(name, items): "all" (`help`), "cmd" (help for a command),      *)
(* "no" (an ordinary command), "open" (`help` followed by an option or     *)
(* `--`: left open).  items = Classify of the tokens after the name.       *)
(***************************************************************************)
EXTENDS Args

HelpWord == <<104, 101, 108, 112>>
HCHAR == <<104>>

HelpKind(name, items) ==
    IF name = HelpWord THEN
        IF items = <<>> THEN "all"
        ELSE IF items[1].k = "value" THEN "cmd"
        ELSE "open"
    ELSE IF \E i \in 1..Len(items) :
                (items[i].k = "long" /\ items[i].t = HelpWord) \/ (items[i].k = "short" /\ items[i].t = HCHAR)
         THEN "cmd"
    ELSE "no"
=============================================================================
