------------------------------- MODULE Utf8 -------------------------------
(***************************************************************************)
(* Unicode scalar values and their UTF-8 encoding (Unicode 15, Table 3-7), *)
(* the streaming decoder the CLI is specified to contain, and the spec     *)
(* counterparts of the library's own text utilities (utils.rs).            *)
(*                                                                         *)
(* Bytes are naturals 0..255, scalars are naturals, text is a sequence of  *)
(* scalars, a byte string is a sequence of bytes.                          *)
(***************************************************************************)
EXTENDS Naturals, Sequences

IsScalar(cp) == (cp >= 0 /\ cp <= 55295) \/ (cp >= 57344 /\ cp <= 1114111)

EncLen(cp) == IF cp < 128 THEN 1
              ELSE IF cp < 2048 THEN 2
              ELSE IF cp < 65536 THEN 3 ELSE 4

Encode(cp) ==
    IF cp < 128 THEN <<cp>>
    ELSE IF cp < 2048 THEN <<192 + (cp \div 64), 128 + (cp % 64)>>
    ELSE IF cp < 65536 THEN
        <<224 + (cp \div 4096), 128 + ((cp \div 64) % 64), 128 + (cp % 64)>>
    ELSE <<240 + (cp \div 262144), 128 + ((cp \div 4096) % 64),
           128 + ((cp \div 64) % 64), 128 + (cp % 64)>>

(* Number of octets announced by a lead byte; 0 = not a valid lead.        *)
(* C0, C1 (overlong 2-byte), F5..FF (beyond U+10FFFF) are never leads.     *)
LeadLen(b) == IF b < 128 THEN 1
              ELSE IF b >= 194 /\ b <= 223 THEN 2
              ELSE IF b >= 224 /\ b <= 239 THEN 3
              ELSE IF b >= 240 /\ b <= 244 THEN 4
              ELSE 0

IsCont(b) == b >= 128 /\ b <= 191

(* Range of the second octet, Table 3-7 *)
SecondOk(lead, b) ==
    IF lead = 224 THEN b >= 160 /\ b <= 191          \* E0: no overlong
    ELSE IF lead = 237 THEN b >= 128 /\ b <= 159     \* ED: no surrogates
    ELSE IF lead = 240 THEN b >= 144 /\ b <= 191     \* F0: no overlong
    ELSE IF lead = 244 THEN b >= 128 /\ b <= 143     \* F4: <= U+10FFFF
    ELSE IsCont(b)

(* bs[i..] starts with one well-formed encoded scalar of n octets *)
WellFormedAt(bs, i) ==
    LET n == LeadLen(bs[i]) IN
    /\ n > 0
    /\ i + n - 1 <= Len(bs)
    /\ n >= 2 => SecondOk(bs[i], bs[i + 1])
    /\ n >= 3 => IsCont(bs[i + 2])
    /\ n >= 4 => IsCont(bs[i + 3])

ValueAt(bs, i) ==
    LET n == LeadLen(bs[i]) IN
    IF n = 1 THEN bs[i]
    ELSE IF n = 2 THEN (bs[i] - 192) * 64 + (bs[i + 1] - 128)
    ELSE IF n = 3 THEN (bs[i] - 224) * 4096 + (bs[i + 1] - 128) * 64 + (bs[i + 2] - 128)
    ELSE (bs[i] - 240) * 262144 + (bs[i + 1] - 128) * 4096
         + (bs[i + 2] - 128) * 64 + (bs[i + 3] - 128)

(* A byte string that is exactly one encoded scalar *)
WellFormedOne(bs) == Len(bs) >= 1 /\ WellFormedAt(bs, 1) /\ LeadLen(bs[1]) = Len(bs)

Bad == <<0 - 1>>    \* result of decoding an ill-formed byte string

RECURSIVE DecodeFrom(_, _, _)
DecodeFrom(bs, i, acc) ==
    IF i > Len(bs) THEN acc
    ELSE IF ~WellFormedAt(bs, i) THEN Bad
    ELSE DecodeFrom(bs, i + LeadLen(bs[i]), Append(acc, ValueAt(bs, i)))

(* Strict decoding of a whole byte string: text, or Bad *)
Decode(bs) == DecodeFrom(bs, 1, <<>>)

WellFormed(bs) == Decode(bs) # Bad

RECURSIVE EncodeFrom(_, _, _)
EncodeFrom(t, i, acc) ==
    IF i > Len(t) THEN acc ELSE EncodeFrom(t, i + 1, acc \o Encode(t[i]))
EncodeAll(t) == EncodeFrom(t, 1, <<>>)

RECURSIVE BytesFrom(_, _, _)
BytesFrom(t, i, acc) == IF i > Len(t) THEN acc ELSE BytesFrom(t, i + 1, acc + EncLen(t[i]))
(* UTF-8 length of a text *)
Bytes(t) == BytesFrom(t, 1, 0)

(***************************************************************************)
(* Streaming decoder.  `pending` is a proper, still valid prefix of an     *)
(* encoded scalar.  DecStep returns the set of admissible outcomes for a   *)
(* byte >= 0x20 (other bytes never reach it): each outcome has the octets  *)
(* kept and the scalar emitted (emit = <<cp>> or <<>>).                    *)
(*                                                                         *)
(*  - an ASCII byte is a character; whatever was pending is dropped;       *)
(*  - a lead byte starts a new sequence; whatever was pending is dropped;  *)
(*  - a continuation byte extends a pending sequence if it is in range for *)
(*    that position, emitting the scalar when complete; a stray or         *)
(*    out-of-range continuation is dropped together with the pending      *)
(*    octets;                                                              *)
(*  - a byte that can never occur in UTF-8 (C0, C1, F5..FF) is dropped      *)
(*    together with the pending octets: an interrupted sequence is never   *)
(*    completed by octets that follow the interruption.                    *)
(***************************************************************************)
NoEmit(p) == [pending |-> p, emit |-> <<>>]

DecStep(pending, b) ==
    IF b < 128 THEN {[pending |-> <<>>, emit |-> <<b>>]}
    ELSE IF LeadLen(b) >= 2 THEN {NoEmit(<<b>>)}
    ELSE IF IsCont(b) THEN
        IF pending = <<>> THEN {NoEmit(<<>>)}
        ELSE LET ok == IF Len(pending) = 1 THEN SecondOk(pending[1], b) ELSE TRUE
                 p2 == Append(pending, b)
             IN IF ~ok THEN {NoEmit(<<>>)}
                ELSE IF Len(p2) = LeadLen(p2[1])
                     THEN {[pending |-> <<>>, emit |-> <<ValueAt(p2, 1)>>]}
                     ELSE {NoEmit(p2)}
    ELSE \* C0, C1, F5..FF
        {NoEmit(<<>>)}

(***************************************************************************)
(* Spec counterparts of utils.rs (on well-formed text)                     *)
(***************************************************************************)
CharCount(t) == Len(t)

(* byte offset of the char with 0-based index k; -1 ("None") if there is   *)
(* no such char                                                            *)
CharByteIndex(t, k) == IF k >= Len(t) THEN 0 - 1 ELSE Bytes(SubSeq(t, 1, k))

(* first scalar and the rest *)
PopFront(t) == [c |-> Head(t), rest |-> Tail(t)]

RECURSIVE CommonPrefix(_, _, _)
CommonPrefix(a, b, i) ==
    IF i > Len(a) \/ i > Len(b) \/ a[i] # b[i] THEN i - 1 ELSE CommonPrefix(a, b, i + 1)
(* number of scalars two texts have in common at the front *)
CommonPrefixChars(a, b) == CommonPrefix(a, b, 1)
(* the same measured in bytes, as utils::common_prefix_len reports it *)
CommonPrefixLen(a, b) == Bytes(SubSeq(a, 1, CommonPrefixChars(a, b)))

=============================================================================
