SPECIFICATION SpecUnits
VIEW ViewUnits
INVARIANT TypeInv
CHECK_DEADLOCK FALSE
