SPECIFICATION Spec
CONSTANTS
  Cap = 4
  Chars = {97, 233, 20013, 128512}
VIEW View
ACTION_CONSTRAINT Emit
INVARIANT Inv
PROPERTY StepProp
CHECK_DEADLOCK FALSE
