----------------------------- MODULE EditorBuf -----------------------------
(***************************************************************************)
(* The line editor as implemented (editor.rs): a byte buffer of fixed size *)
(* Cap, `valid` bytes of text, a cursor counted in characters.  Every      *)
(* unchecked operation of the implementation (get_unchecked,               *)
(* from_utf8_unchecked, copy_nonoverlapping, copy_within, split_at_mut) is *)
(* represented by its precondition, collected in the `pre` field of an     *)
(* operation's result and asserted by the model (MC_EditorBuf) in every    *)
(* reachable state; the model also checks that the buffer refines the      *)
(* ideal Editor under  line = Decode(buffer[1..valid]).                    *)
(***************************************************************************)
EXTENDS Editor

Buf(buffer, valid, cursor) == [buffer |-> buffer, valid |-> valid, cursor |-> cursor]
BufInit(cap) == Buf([i \in 1..cap |-> 0], 0, 0)

Text(b) == SubSeq(b.buffer, 1, b.valid)

(* structural invariant from which the preconditions follow *)
BufOk(b, cap) ==
    /\ Len(b.buffer) = cap
    /\ b.valid >= 0 /\ b.valid <= cap
    /\ Decode(Text(b)) # Bad
    /\ b.cursor >= 0 /\ b.cursor <= Len(Decode(Text(b)))

Abstract(b) == Ed(Decode(Text(b)), b.cursor)

RECURSIVE CbiFrom(_, _, _, _)
(* utils::char_byte_index on well-formed bytes: byte offset of char k, -1 = None *)
CbiFrom(bs, k, i, n) ==
    IF i > Len(bs) THEN 0 - 1
    ELSE IF n = k THEN i - 1
    ELSE CbiFrom(bs, k, i + LeadLen(bs[i]), n + 1)
Cbi(bs, k) == CbiFrom(bs, k, 1, 0)

(* copy_within(src_lo..src_hi, dst) on a 0-based buffer *)
CopyWithin(buffer, lo, hi, dst) ==
    [i \in 1..Len(buffer) |->
        IF i - 1 >= dst /\ i - 1 < dst + (hi - lo) THEN buffer[lo + (i - 1 - dst) + 1] ELSE buffer[i]]
CopyWithinPre(buffer, lo, hi, dst) == lo <= hi /\ hi <= Len(buffer) /\ dst + (hi - lo) <= Len(buffer)

Poke(buffer, at, bytes) ==
    [i \in 1..Len(buffer) |-> IF i - 1 >= at /\ i - 1 < at + Len(bytes) THEN bytes[i - at] ELSE buffer[i]]

R(b, pre, ret) == [b |-> b, pre |-> pre, ret |-> ret]

(* Editor::insert(text) *)
BInsert(b, text) ==
    LET remaining == Len(b.buffer) - b.valid
        n == Len(text)
    IN
    IF remaining < n THEN R(b, b.valid <= Len(b.buffer), FALSE)
    ELSE LET c0 == Cbi(Text(b), b.cursor)
             c == IF c0 >= 0 THEN c0 ELSE b.valid
             shifted == IF c0 >= 0 THEN CopyWithin(b.buffer, c, b.valid, c + n) ELSE b.buffer
             pre == /\ b.valid <= Len(b.buffer)                           \* text(): get_unchecked(..valid)
                    /\ Decode(Text(b)) # Bad                              \* text(): from_utf8_unchecked
                    /\ (c0 >= 0 => CopyWithinPre(b.buffer, c, b.valid, c + n))
                    /\ c <= Len(b.buffer)                                 \* &mut buffer[cursor..]
                    /\ n <= Len(b.buffer) - c                             \* copy_nonoverlapping(len)
                    /\ c + n <= Len(b.buffer)                             \* &buffer[cursor..cursor + len]
         IN R(Buf(Poke(shifted, c, text), b.valid + n, b.cursor + Len(Decode(text))), pre, TRUE)

(* Editor::remove() *)
BRemove(b) ==
    LET t == Text(b)
        c == Cbi(t, b.cursor)
    IN IF c < 0 THEN R(b, b.valid <= Len(b.buffer) /\ Decode(t) # Bad, TRUE)
       ELSE LET rest == SubSeq(t, c + 1, Len(t))
                n0 == Cbi(rest, 1)
                pre == /\ b.valid <= Len(b.buffer) /\ Decode(t) # Bad
                       /\ c <= Len(t)                                     \* text().get_unchecked(cursor_pos..)
                       /\ Decode(rest) # Bad                              \* ... at a char boundary
                       /\ (n0 >= 0 => CopyWithinPre(b.buffer, n0 + c, b.valid, c))
            IN IF n0 < 0 THEN R([b EXCEPT !.valid = c], pre, TRUE)
               ELSE R(Buf(CopyWithin(b.buffer, n0 + c, b.valid, c), b.valid - n0, b.cursor), pre, TRUE)

BLeft(b) == IF b.cursor > 0 THEN R([b EXCEPT !.cursor = b.cursor - 1], TRUE, TRUE) ELSE R(b, TRUE, FALSE)
BRight(b) ==
    IF b.cursor < Len(Decode(Text(b))) THEN R([b EXCEPT !.cursor = b.cursor + 1], b.valid <= Len(b.buffer), TRUE)
    ELSE R(b, b.valid <= Len(b.buffer), FALSE)
BClear(b) == R([b EXCEPT !.valid = 0, !.cursor = 0], TRUE, TRUE)

(* Cli's Backspace: move_left then remove *)
BBackspace(b) ==
    LET m == BLeft(b) IN IF m.ret THEN LET r == BRemove(m.b) IN R(r.b, m.pre /\ r.pre, TRUE) ELSE m

(* Editor::text_mut + Tokens::new (in place) + clear: what Enter does to the buffer.      *)
(* Tokens::new writes only inside [0, valid): insert <= cursor_pos at every step.          *)
BEnterPre(b) == b.valid <= Len(b.buffer) /\ Decode(Text(b)) # Bad

=============================================================================
