-------------------------- MODULE AutocompleteBuf --------------------------
(***************************************************************************)
(* Tab completion as implemented: Editor::autocompletion splits the buffer *)
(* at the end of the request, every matching name (in DECLARATION ORDER,   *)
(* then the built-in help) is merged into an Autocompletion by             *)
(* merge_autocompletion, and the result is written back (autocomplete.rs,  *)
(* editor.rs, cli.rs).  MergeAll transcribes that algorithm over scalar    *)
(* texts with byte-accurate room; MC_Autocomplete checks that for every    *)
(* ORDER of a set of names its result is one of the outcomes Complete      *)
(* admits for the SET - i.e. declaration order cannot matter beyond the    *)
(* choices the property leaves open.                                       *)
(***************************************************************************)
EXTENDS Autocomplete, Sequences

(* state of an Autocompletion: done = <<>> (None) or <<text>>; partial; room in bytes *)
AcInit == [done |-> <<>>, partial |-> FALSE]

RECURSIVE CommonPrefixOf(_, _, _)
CommonPrefixOf(a, b, i) ==
    IF i > Len(a) \/ i > Len(b) \/ a[i] # b[i] THEN SubSeq(a, 1, i - 1) ELSE CommonPrefixOf(a, b, i + 1)

(* Autocompletion::merge_autocompletion(cont) with a scratch buffer of `room` bytes *)
Merge(ac, cont, room) ==
    IF cont = <<>> \/ room = 0 THEN
        [done |-> << <<>> >>,
         partial |-> ac.partial \/ ac.done # <<>> \/ (room = 0 /\ cont # <<>>)]
    ELSE LET keep == IF ac.done = <<>> THEN cont ELSE CommonPrefixOf(cont, ac.done[1], 1) IN
         IF Bytes(keep) > room THEN [done |-> << <<>> >>, partial |-> TRUE]      \* does not fit (repaired F5b)
         ELSE [done |-> <<keep>>, partial |-> ac.partial \/ Len(keep) < Len(cont) \/ ac.done # <<>>]

RECURSIVE MergeAll(_, _, _, _, _)
MergeAll(ac, names, i, w, room) ==
    IF i > Len(names) THEN ac
    ELSE MergeAll(IF IsPrefix(w, names[i]) THEN Merge(ac, SubSeq(names[i], Len(w) + 1, Len(names[i])), room) ELSE ac,
                  names, i + 1, w, room)

(* Editor::autocompletion + process_autocomplete: names is a SEQUENCE (declaration order, help last) *)
CompleteImpl(names, line, cur, cap) ==
    LET req == Request(line, cur)
        w == Word(line, cur)
    IN IF w = <<>> \/ HasBlank(w) THEN Res(line, cur)
       ELSE LET room == cap - Bytes(req)
                ac == MergeAll(AcInit, names, 1, w, room)
            IN IF ac.done = <<>> THEN Res(line, cur)
               ELSE LET l1 == req \o ac.done[1]
                        l2 == IF ~ac.partial /\ Bytes(l1) < cap THEN Append(l1, SPACE) ELSE l1
                    IN Res(l2, Len(l2))
=============================================================================
