------------------------------- MODULE Derive -------------------------------
(***************************************************************************)
(* What the derive macros promise (embedded-cli-macros): a command         *)
(* declaration is DATA, and Parse(decl, tokens) says what parsing a line   *)
(* must yield for it.                                                      *)
(*                                                                         *)
(* The catalogue (gen/catalogue.json, the same file the Rust declarations  *)
(* are generated from) is a record  [enums |-> sequence of declarations];  *)
(* a declaration is                                                        *)
(*   [id, kind ("command" | "group"), variants, members]                   *)
(*   variant: [ident, name_cp, args, sub (enum id or ""), sub_optional]    *)
(*   arg:     [field, kind ("pos" | "opt" | "flag"), ty, optional,         *)
(*             has_long, long_cp, short_cp (0 = none), has_default,        *)
(*             default_val, usage_cp]                                      *)
(*   member:  [ident, enum, hidden]                                        *)
(* Texts are sequences of scalars (`_cp` fields); values are compared in   *)
(* their canonical rendering as byte strings.                              *)
(*                                                                         *)
(* Value conversion is not interpreted here: `cv` is a table, computed by  *)
(* the field type's canonical parser (str::parse of the standard library), *)
(* of [tok (bytes), ty, ok, val (bytes)].                                  *)
(***************************************************************************)
EXTENDS Args, Json, IOUtils, TLC

Cat == JsonDeserialize(IOEnv.CATALOGUE)

EnumOf(id) == LET i == CHOOSE i \in 1..Len(Cat.enums) : Cat.enums[i].id = id IN Cat.enums[i]

-----------------------------------------------------------------------------
(* results *)
Ok(ident, fields, sub, open) == [ok |-> TRUE, v |-> ident, f |-> fields, sub |-> sub,
                                 kind |-> "", payload |-> <<>>, ty |-> "", open |-> open]
Err(kind, payload, ty, open) == [ok |-> FALSE, v |-> "", f |-> <<>>, sub |-> <<>>,
                                 kind |-> kind, payload |-> payload, ty |-> ty, open |-> open]

Field(n, some, val) == [n |-> n, some |-> some, val |-> val]

Convert(cv, t, ty) ==
    IF ty = "str" THEN [ok |-> TRUE, val |-> EncodeAll(t)]
    ELSE LET bs == EncodeAll(t)
             hits == {i \in 1..Len(cv) : cv[i].tok = bs /\ cv[i].ty = ty}
         IN IF hits = {} THEN [ok |-> FALSE, val |-> <<0 - 1>>]      \* table incomplete: never matches
            ELSE LET c == cv[CHOOSE i \in hits : TRUE] IN [ok |-> c.ok, val |-> c.val]

-----------------------------------------------------------------------------
(* the argument loop of one variant.  State s:                             *)
(*   mode : 0, or the index of the option awaiting its value               *)
(*   pos  : number of positionals filled                                   *)
(*   vals : per argument, <<>> or <<value>>                                *)
(*   vo   : `--` seen, everything is a value                               *)
(*   err  : <<>> or <<error>>        sub : <<>> or <<result of the sub-command>>  *)
(*   open : the line did something the property leaves open                *)

ArgIdx(v, P(_)) == {k \in 1..Len(v.args) : P(v.args[k])}

Positionals(v) == ArgIdx(v, LAMBDA a : a.kind = "pos")

RECURSIVE NthPos(_, _, _, _)
NthPos(v, n, k, seen) ==            \* index of the n-th positional (1-based), 0 if none
    IF k > Len(v.args) THEN 0
    ELSE IF v.args[k].kind = "pos" THEN (IF seen + 1 = n THEN k ELSE NthPos(v, n, k + 1, seen + 1))
    ELSE NthPos(v, n, k + 1, seen)

SetVal(s, k, val) == [s EXCEPT !.vals = [@ EXCEPT ![k] = <<val>>], !.mode = 0]

OnName(v, s, hits, errKind, payload) ==
    IF hits = {} THEN [s EXCEPT !.err = <<Err(errKind, payload, "", FALSE)>>]
    ELSE LET k == CHOOSE k \in hits : \A j \in hits : k <= j
             \* OpenAbandoned / OpenRepeated: an option left without its value, or named twice
             op == s.open \/ s.mode # 0 \/ s.vals[k] # <<>>
         IN IF v.args[k].kind = "flag"
            THEN [SetVal(s, k, <<116, 114, 117, 101>>) EXCEPT !.open = op]          \* "true"
            ELSE [s EXCEPT !.mode = k, !.open = op]

OnLong(v, s, name) ==
    OnName(v, s, ArgIdx(v, LAMBDA a : a.kind # "pos" /\ a.has_long /\ a.long_cp = name), "unexpected-long", name)

OnShort(v, s, c) ==
    OnName(v, s, ArgIdx(v, LAMBDA a : a.kind # "pos" /\ a.short_cp = c), "unexpected-short", <<c>>)

RECURSIVE OnShorts(_, _, _, _)
OnShorts(v, s, t, j) ==
    IF j > Len(t) \/ s.err # <<>> THEN s ELSE OnShorts(v, OnShort(v, s, t[j]), t, j + 1)

RECURSIVE ParseEnum(_, _, _, _)
RECURSIVE Loop(_, _, _, _, _)

OnValue(cv, v, toks, i, s) ==
    LET t == toks[i] IN
    IF s.mode # 0 THEN
        LET c == Convert(cv, t, v.args[s.mode].ty) IN
        IF c.ok THEN SetVal(s, s.mode, c.val)
        ELSE [s EXCEPT !.err = <<Err("parse-value", t, v.args[s.mode].ty, FALSE)>>]
    ELSE IF v.sub # "" THEN
        \* the sub-command is parsed from the remaining tokens, classified afresh
        \* (OpenDashDashParent: after a `--` given to the parent this is left open)
        \* (open only if a remaining token would be read differently as a plain value)
        [s EXCEPT !.sub = <<ParseEnum(cv, v.sub, t, SubSeq(toks, i + 1, Len(toks)))>>,
                  !.done = TRUE,
                  !.open = s.open \/ (s.vo /\ \E j \in (i + 1)..Len(toks) : Len(toks[j]) > 1 /\ toks[j][1] = DASH)]
    ELSE LET k == NthPos(v, s.pos + 1, 1, 0) IN
         IF k = 0 THEN [s EXCEPT !.err = <<Err("unexpected-arg", t, "", FALSE)>>]
         ELSE LET c == Convert(cv, t, v.args[k].ty) IN
              IF c.ok THEN [SetVal(s, k, c.val) EXCEPT !.pos = s.pos + 1]
              ELSE [s EXCEPT !.err = <<Err("parse-value", t, v.args[k].ty, FALSE)>>]

Loop(cv, v, toks, i, s) ==
    IF s.err # <<>> \/ s.done \/ i > Len(toks) THEN s
    ELSE LET t == toks[i] IN
      IF ~s.vo /\ Len(t) > 1 /\ t[1] = DASH THEN
          IF t[2] = DASH THEN
              IF Len(t) = 2 THEN Loop(cv, v, toks, i + 1, [s EXCEPT !.vo = TRUE])
              ELSE Loop(cv, v, toks, i + 1, OnLong(v, s, SubSeq(t, 3, Len(t))))
          ELSE Loop(cv, v, toks, i + 1, OnShorts(v, s, t, 2))
      ELSE Loop(cv, v, toks, i + 1, OnValue(cv, v, toks, i, s))

RECURSIVE Build(_, _, _, _)
(* fields in declaration order; the first missing required argument is the error *)
Build(v, s, k, acc) ==
    IF k > Len(v.args) THEN [ok |-> TRUE, f |-> acc, usage |-> <<>>]
    ELSE LET a == v.args[k] IN
         IF s.vals[k] # <<>> THEN Build(v, s, k + 1, Append(acc, Field(a.field, TRUE, s.vals[k][1])))
         ELSE IF a.optional THEN Build(v, s, k + 1, Append(acc, Field(a.field, FALSE, <<>>)))
         ELSE IF a.kind = "flag" THEN Build(v, s, k + 1, Append(acc, Field(a.field, TRUE, <<102, 97, 108, 115, 101>>)))
         ELSE IF a.has_default THEN Build(v, s, k + 1, Append(acc, Field(a.field, TRUE, a.default_val)))
         ELSE [ok |-> FALSE, f |-> <<>>, usage |-> a.usage_cp]

CommandUsage(opt) == IF opt THEN <<91, 67, 79, 77, 77, 65, 78, 68, 93>>       \* [COMMAND]
                     ELSE <<60, 67, 79, 77, 77, 65, 78, 68, 62>>               \* <COMMAND>

ParseVariant(cv, v, toks) ==
    LET s0 == [mode |-> 0, pos |-> 0, vals |-> [k \in 1..Len(v.args) |-> <<>>], vo |-> FALSE,
               err |-> <<>>, sub |-> <<>>, done |-> FALSE, open |-> FALSE]
        s == Loop(cv, v, toks, 1, s0)
        \* OpenAbandoned: the line ends while an option still awaits its value
        open == s.open \/ s.mode # 0 \/ (s.sub # <<>> /\ s.sub[1].open)
    IN
    IF s.err # <<>> THEN [s.err[1] EXCEPT !.open = open]
    ELSE IF s.sub # <<>> /\ ~s.sub[1].ok THEN [s.sub[1] EXCEPT !.open = open]
    ELSE LET b == Build(v, s, 1, <<>>) IN
         IF ~b.ok THEN Err("missing", b.usage, "", open)
         ELSE IF v.sub # "" /\ s.sub = <<>> /\ ~v.sub_optional THEN Err("missing", CommandUsage(FALSE), "", open)
         ELSE Ok(v.ident, b.f, s.sub, open)

RECURSIVE ParseGroup(_, _, _, _, _, _)
(* groups try their members in order; only `unknown command` passes on     *)
(* (open: some member met a situation the property leaves open)            *)
ParseGroup(cv, e, m, name, toks, open) ==
    IF m > Len(e.members) THEN Err("unknown", <<>>, "", open)
    ELSE LET r == ParseEnum(cv, e.members[m].enum, name, toks) IN
         IF r.ok THEN Ok(e.members[m].ident, <<>>, <<r>>, r.open \/ open)
         ELSE IF r.kind = "unknown" THEN ParseGroup(cv, e, m + 1, name, toks, open \/ r.open)
         ELSE [r EXCEPT !.open = r.open \/ open]

ParseEnum(cv, id, name, toks) ==
    LET e == EnumOf(id) IN
    IF e.kind = "group" THEN ParseGroup(cv, e, 1, name, toks, FALSE)
    ELSE LET hits == {i \in 1..Len(e.variants) : e.variants[i].name_cp = name} IN
         IF hits = {} THEN Err("unknown", <<>>, "", FALSE)
         ELSE ParseVariant(cv, e.variants[CHOOSE i \in hits : \A j \in hits : i <= j], toks)

(* a submitted line: first token is the command name *)
Parse(cv, id, toks) == ParseEnum(cv, id, toks[1], Tail(toks))

=============================================================================
