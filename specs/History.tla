------------------------------ MODULE History ------------------------------
(***************************************************************************)
(* Command history (history.rs seen from outside).                         *)
(* State: [hist : Seq(text) oldest first, nav : 0..Len(hist)]; nav = 0     *)
(* means nothing is being recalled, nav = k that the k-th newest entry is  *)
(* shown.  hcap = size of the history buffer in bytes; an entry costs its  *)
(* UTF-8 length plus one.                                                  *)
(***************************************************************************)
EXTENDS Utf8

Hs(hist, nav) == [hist |-> hist, nav |-> nav]
HsInit == Hs(<<>>, 0)

Cost(l) == Bytes(l) + 1

RECURSIVE TotalFrom(_, _, _)
TotalFrom(h, i, acc) == IF i > Len(h) THEN acc ELSE TotalFrom(h, i + 1, acc + Cost(h[i]))
Total(h) == TotalFrom(h, 1, 0)

NoDup(h) == \A i, j \in 1..Len(h) : i # j => h[i] # h[j]

HsOk(s, hcap) ==
    /\ s.nav >= 0 /\ s.nav <= Len(s.hist)
    /\ NoDup(s.hist)
    /\ Total(s.hist) <= hcap
    /\ \A i \in 1..Len(s.hist) : s.hist[i] # <<>>

Recordable(l, hcap) == l # <<>> /\ Cost(l) <= hcap

RECURSIVE Without(_, _, _, _)
Without(h, l, i, acc) ==
    IF i > Len(h) THEN acc
    ELSE Without(h, l, i + 1, IF h[i] = l THEN acc ELSE Append(acc, h[i]))

RECURSIVE Evict(_, _)
(* drop oldest entries, only as many as necessary, until `need` more bytes fit *)
Evict(h, room) == IF Total(h) <= room THEN h ELSE Evict(Tail(h), room)

(* the entries after submitting line l *)
Pushed(h, l, hcap) ==
    IF ~Recordable(l, hcap) THEN h
    ELSE IF h # <<>> /\ h[Len(h)] = l THEN h
    ELSE Append(Evict(Without(h, l, 1, <<>>), hcap - Cost(l)), l)

(* OpenNavUnrecorded: when the submitted line is not recorded, the recall   *)
(* position is kept (what the code does) or reset                           *)
Push(s, l, hcap) ==
    IF Recordable(l, hcap) THEN {Hs(Pushed(s.hist, l, hcap), 0)}
    ELSE {s, Hs(s.hist, 0)}

Entry(s, k) == s.hist[Len(s.hist) - k + 1]      \* k-th newest

(* Up: [s |-> state, line |-> <<text>> or <<>> when the line is untouched] *)
Older(s) ==
    IF s.nav < Len(s.hist)
    THEN [s |-> Hs(s.hist, s.nav + 1), show |-> <<Entry(s, s.nav + 1)>>]
    ELSE [s |-> s, show |-> <<>>]

(* Down.  OpenDownIdle: with nothing recalled the line is left alone or    *)
(* cleared (what the code does)                                            *)
Newer(s) ==
    IF s.nav > 1 THEN {[s |-> Hs(s.hist, s.nav - 1), show |-> <<Entry(s, s.nav - 1)>>]}
    ELSE IF s.nav = 1 THEN {[s |-> Hs(s.hist, 0), show |-> << <<>> >>]}
    ELSE {[s |-> s, show |-> <<>>], [s |-> s, show |-> << <<>> >>]}

-----------------------------------------------------------------------------
(* Declarative retention law, used by MC_History: after any sequence of    *)
(* submissions the history is the longest suffix that fits of the          *)
(* recordable submissions with only the last occurrence of each kept.      *)
RECURSIVE DedupLastFrom(_, _, _)
DedupLastFrom(subs, i, acc) ==
    IF i > Len(subs) THEN acc
    ELSE DedupLastFrom(subs, i + 1,
            IF \E j \in (i + 1)..Len(subs) : subs[j] = subs[i] THEN acc ELSE Append(acc, subs[i]))
DedupLast(subs) == DedupLastFrom(subs, 1, <<>>)

RECURSIVE LongestFittingSuffix(_, _)
LongestFittingSuffix(h, hcap) ==
    IF Total(h) <= hcap THEN h ELSE LongestFittingSuffix(Tail(h), hcap)

=============================================================================
