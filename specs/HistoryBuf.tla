----------------------------- MODULE HistoryBuf -----------------------------
(***************************************************************************)
(* The history as implemented (history.rs): a byte buffer of fixed size    *)
(* holding NUL-terminated elements, oldest first, `used` bytes in use, and *)
(* `cursor` = byte offset of the selected element (-1 = None).  Each       *)
(* unchecked / panicking operation (slice ranges, unwrap_unchecked,        *)
(* from_utf8_unchecked, copy_within, copy_nonoverlapping, index) is        *)
(* represented by its precondition, collected in `pre` and asserted by     *)
(* MC_HistoryBuf in every reachable state, together with refinement of     *)
(* History under the projection Entries / Nav.                             *)
(***************************************************************************)
EXTENDS History

HB(buffer, used, cursor) == [buffer |-> buffer, used |-> used, cursor |-> cursor]
HBInit(cap) == HB([i \in 1..cap |-> 0], 0, 0 - 1)

RECURSIVE EntriesFrom(_, _, _, _)
EntriesFrom(bs, i, cur, acc) ==
    IF i > Len(bs) THEN acc
    ELSE IF bs[i] = 0 THEN EntriesFrom(bs, i + 1, <<>>, Append(acc, cur))
    ELSE EntriesFrom(bs, i + 1, Append(cur, bs[i]), acc)
RawEntries(h) == EntriesFrom(SubSeq(h.buffer, 1, h.used), 1, <<>>, <<>>)      \* byte strings

RECURSIVE StartsFrom(_, _, _, _)
StartsFrom(bs, i, start, acc) ==
    IF i > Len(bs) THEN acc
    ELSE IF bs[i] = 0 THEN StartsFrom(bs, i + 1, i, Append(acc, start)) ELSE StartsFrom(bs, i + 1, start, acc)
Starts(h) == StartsFrom(SubSeq(h.buffer, 1, h.used), 1, 0, <<>>)              \* 0-based offsets

HBOk(h, cap) ==
    /\ Len(h.buffer) = cap /\ h.used >= 0 /\ h.used <= cap
    /\ h.used > 0 => h.buffer[h.used] = 0                                      \* last used byte is NUL
    /\ \A i \in 1..Len(RawEntries(h)) : RawEntries(h)[i] # <<>> /\ Decode(RawEntries(h)[i]) # Bad
    /\ h.cursor = 0 - 1 \/ (\E i \in 1..Len(Starts(h)) : Starts(h)[i] = h.cursor)

Nav(h) == IF h.cursor < 0 THEN 0
          ELSE LET i == CHOOSE i \in 1..Len(Starts(h)) : Starts(h)[i] = h.cursor IN Len(Starts(h)) - i + 1
AbstractH(h) == Hs([i \in 1..Len(RawEntries(h)) |-> Decode(RawEntries(h)[i])], Nav(h))

RECURSIVE FindZero(_, _, _)
(* position (0-based, relative to lo) of the first NUL in buffer[lo..hi), -1 if none *)
FindZero(buffer, lo, hi) ==
    IF lo >= hi THEN 0 - 1
    ELSE IF buffer[lo + 1] = 0 THEN 0
    ELSE LET r == FindZero(buffer, lo + 1, hi) IN IF r < 0 THEN r ELSE r + 1

RECURSIVE RFindZero(_, _)
(* 0-based index of the last NUL in buffer[0..hi), -1 if none *)
RFindZero(buffer, hi) == IF hi <= 0 THEN 0 - 1 ELSE IF buffer[hi] = 0 THEN hi - 1 ELSE RFindZero(buffer, hi - 1)

HR(h, pre, ret) == [h |-> h, pre |-> pre, ret |-> ret]       \* ret: <<bytes>> or <<>>

(* History::next_older *)
HOlder(h) ==
    LET c == IF h.cursor > 0 THEN h.cursor ELSE IF h.cursor < 0 /\ h.used > 0 THEN h.used ELSE 0 - 1 IN
    IF c < 0 THEN HR(h, TRUE, <<>>)
    ELSE LET z == RFindZero(h.buffer, c - 1)
             nc == IF z < 0 THEN 0 ELSE z + 1
             pre == /\ c - 1 >= 0 /\ c - 1 <= Len(h.buffer)                   \* buffer[..cursor - 1]
                    /\ nc <= c - 1                                             \* buffer[new_cursor..cursor - 1]
                    /\ Decode(SubSeq(h.buffer, nc + 1, c - 1)) # Bad           \* from_utf8_unchecked
         IN HR([h EXCEPT !.cursor = nc], pre, <<SubSeq(h.buffer, nc + 1, c - 1)>>)

(* History::next_newer *)
HNewer(h) ==
    IF h.cursor < 0 THEN HR(h, TRUE, <<>>)
    ELSE LET pre1 == h.used >= 1 /\ h.cursor <= h.used - 1 /\ h.used - 1 <= Len(h.buffer)   \* buffer[cursor..used - 1]
             p == FindZero(h.buffer, h.cursor, h.used - 1)
         IN IF p < 0 THEN HR([h EXCEPT !.cursor = 0 - 1], pre1, <<>>)
            ELSE LET nc == h.cursor + p + 1
                     ln == FindZero(h.buffer, nc, Len(h.buffer))
                     pre == /\ pre1 /\ nc <= Len(h.buffer)                     \* buffer[new_cursor..]
                            /\ ln >= 0                                         \* unwrap_unchecked
                            /\ Decode(SubSeq(h.buffer, nc + 1, nc + ln)) # Bad
                 IN HR([h EXCEPT !.cursor = nc], pre, <<SubSeq(h.buffer, nc + 1, nc + ln)>>)

CopyWithinH(buffer, lo, hi, dst) ==
    [i \in 1..Len(buffer) |->
        IF i - 1 >= dst /\ i - 1 < dst + (hi - lo) THEN buffer[lo + (i - 1 - dst) + 1] ELSE buffer[i]]
CopyPre(buffer, lo, hi, dst) == lo <= hi /\ hi <= Len(buffer) /\ dst + (hi - lo) <= Len(buffer)

RECURSIVE DedupScan(_, _, _)
(* the `while let Some(existing) = self.next_older()` loop of push: walks  *)
(* towards the oldest element; removes the first element equal to text     *)
DedupScan(h, text, pre) ==
    LET o == HOlder(h) IN
    IF o.ret = <<>> THEN [h |-> h, pre |-> pre /\ o.pre]
    ELSE IF o.ret[1] = text THEN
        LET start == o.h.cursor
            stop == start + Len(text) + 1
            p2 == /\ start >= 0                                               \* cursor.unwrap_unchecked()
                  /\ CopyPre(h.buffer, stop, h.used, start)
        IN [h |-> HB(CopyWithinH(h.buffer, stop, h.used, start), h.used - (Len(text) + 1), o.h.cursor),
            pre |-> pre /\ o.pre /\ p2]
    ELSE DedupScan(o.h, text, pre /\ o.pre)

(* History::push(text) on UTF-8 bytes *)
HPush(h, text) ==
    LET cap == Len(h.buffer)
        n == Len(text)
    IN
    IF (\E i \in 1..n : text[i] = 0) \/ n + 1 > cap \/ n = 0 THEN HR(h, TRUE, <<>>)
    ELSE LET h0 == [h EXCEPT !.cursor = 0 - 1]
             first == HOlder(h0)
         IN IF first.ret # <<>> /\ first.ret[1] = text THEN HR(h0, first.pre, <<>>)
            ELSE LET sc == DedupScan(first.h, text, first.pre)
                     h1 == [sc.h EXCEPT !.cursor = 0 - 1]
                     need == h1.used + n + 1
                     ev == IF cap < need THEN
                              LET required == need - cap IN
                              IF required >= h1.used THEN [h |-> [h1 EXCEPT !.used = 0], pre |-> TRUE]
                              ELSE LET z == FindZero(h1.buffer, required - 1, h1.used)
                                       removing == required + z
                                       p == /\ required - 1 >= 0 /\ required - 1 <= h1.used /\ h1.used <= cap   \* buffer[required - 1..used]
                                            /\ z >= 0                                                          \* unwrap_unchecked
                                   IN IF removing < h1.used
                                      THEN [h |-> HB(CopyWithinH(h1.buffer, removing, h1.used, 0), h1.used - removing, 0 - 1),
                                            pre |-> p /\ CopyPre(h1.buffer, removing, h1.used, 0)]
                                      ELSE [h |-> [h1 EXCEPT !.used = 0], pre |-> p]
                           ELSE [h |-> h1, pre |-> TRUE]
                     h2 == ev.h
                     nullPos == h2.used + n
                     p3 == /\ h2.used <= cap                                    \* &mut buffer[used..]
                           /\ n <= cap - h2.used                                \* copy_nonoverlapping(len)
                           /\ nullPos < cap                                     \* buffer[null_pos] = 0
                     buf2 == [i \in 1..cap |->
                                IF i - 1 >= h2.used /\ i - 1 < h2.used + n THEN text[i - h2.used]
                                ELSE IF i - 1 = nullPos THEN 0 ELSE h2.buffer[i]]
                 IN HR(HB(buf2, h2.used + n + 1, 0 - 1), sc.pre /\ ev.pre /\ p3, <<>>)

=============================================================================
