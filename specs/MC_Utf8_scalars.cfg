SPECIFICATION SpecScalars
INVARIANT ScalarInv
CHECK_DEADLOCK FALSE
