---------------------------- MODULE MC_HistoryBuf ----------------------------
(* Closure of the implementation-shaped history for one buffer size: every  *)
(* precondition holds (Assert), the structural invariant is preserved, each *)
(* step refines History.                                                    *)
EXTENDS HistoryBuf, TLC

CONSTANT HCap
VARIABLE h

Pool == {<<97>>, <<98>>, <<97, 98>>, <<233>>, <<20013>>, <<97, 128512>>, <<>>, <<97, 98, 99, 100, 101, 102, 103>>}

Init == h = HBInit(HCap)

StepH(r, Allowed(_)) ==
    /\ Assert(r.pre, <<"precondition of an unchecked operation violated", h, r>>)
    /\ Assert(Allowed(AbstractH(r.h)), <<"buffer does not refine the abstract history", h, r.h>>)
    /\ h' = r.h

Next ==
    \/ \E l \in Pool : StepH(HPush(h, EncodeAll(l)), LAMBDA a : a \in Push(AbstractH(h), l, HCap))
    \/ LET r == HOlder(h)
           x == Older(AbstractH(h))
       IN /\ Assert((r.ret = <<>>) = (x.show = <<>>) /\ (r.ret # <<>> => Decode(r.ret[1]) = x.show[1]),
                    <<"older returns the wrong element", h, r.ret, x>>)
          /\ StepH(r, LAMBDA a : a = x.s)
    \/ LET r == HNewer(h) IN
       StepH(r, LAMBDA a : \E x \in Newer(AbstractH(h)) :
                              /\ a = x.s
                              /\ (r.ret # <<>> => x.show = <<Decode(r.ret[1])>>))
Spec == Init /\ [][Next]_h

View == <<SubSeq(h.buffer, 1, h.used), h.cursor>>
Inv == HBOk(h, HCap) /\ HsOk(AbstractH(h), HCap)
=============================================================================
