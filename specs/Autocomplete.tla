---------------------------- MODULE Autocomplete ----------------------------
(***************************************************************************)
(* Tab completion of the command name (autocomplete.rs, editor.rs,         *)
(* derive(Command)::autocomplete, cli.rs::process_autocomplete).           *)
(* Complete(names, line, cur, cap) is the SET of admissible (line', cur'). *)
(* `names` is the set of visible command names (a SET: declaration order   *)
(* must not matter) including the built-in `help` when it is offered.      *)
(***************************************************************************)
EXTENDS Utf8, FiniteSets

SPACE == 32
HelpName == <<104, 101, 108, 112>>

IsPrefix(p, t) == Len(p) <= Len(t) /\ SubSeq(t, 1, Len(p)) = p

RECURSIVE TrailingBlanks(_)
TrailingBlanks(t) == IF t # <<>> /\ t[Len(t)] = SPACE THEN 1 + TrailingBlanks(SubSeq(t, 1, Len(t) - 1)) ELSE 0

RECURSIVE DropLeadingBlanks(_)
DropLeadingBlanks(t) == IF t # <<>> /\ t[1] = SPACE THEN DropLeadingBlanks(Tail(t)) ELSE t

(* blanks right of the cursor that end the line are not part of the request *)
Removed(line, cur) == IF cur < Len(line) THEN TrailingBlanks(SubSeq(line, cur + 1, Len(line))) ELSE 0
Request(line, cur) == SubSeq(line, 1, Len(line) - Removed(line, cur))
Word(line, cur) == DropLeadingBlanks(Request(line, cur))

HasBlank(t) == \E i \in 1..Len(t) : t[i] = SPACE

Candidates(names, w) == {n \in names : IsPrefix(w, n)}

RECURSIVE CommonLen(_, _)
(* number of leading scalars shared by all texts of a non-empty set *)
CommonLen(S, k) ==
    IF \A t \in S : Len(t) > k /\ (\A u \in S : Len(u) > k /\ u[k + 1] = t[k + 1])
    THEN CommonLen(S, k + 1) ELSE k

(* longest common continuation of the candidates after word w *)
LCC(cands, w) ==
    LET conts == {SubSeq(n, Len(w) + 1, Len(n)) : n \in cands}
        any == CHOOSE c \in conts : TRUE
    IN SubSeq(any, 1, CommonLen(conts, 0))

Res(l, c) == [line |-> l, cur |-> c]

Complete(names, line, cur, cap) ==
    LET req == Request(line, cur)
        w == Word(line, cur)
        cands == Candidates(names, w)
    IN
    IF w = <<>> \/ HasBlank(w) \/ cands = {} THEN {Res(line, cur)}
    ELSE
      LET lcc == LCC(cands, w)
          room == cap - Bytes(req)
          allFit == \A n \in cands : Bytes(SubSeq(n, Len(w) + 1, Len(n))) <= room
          full == req \o lcc
      IN
      IF allFit THEN
          LET withBlank == Cardinality(cands) = 1 /\ Bytes(full) + 1 <= cap
              l2 == IF withBlank THEN Append(full, SPACE) ELSE full
          IN {Res(l2, Len(l2))}
             \* nothing to add: the line may also be left exactly as it was
             \cup (IF lcc = <<>> /\ ~withBlank THEN {Res(line, cur)} ELSE {})
      ELSE
          \* OpenTight: some candidate does not fit the buffer: nothing, or any
          \* prefix of the common continuation that fits; never a blank
          {Res(line, cur)} \cup
          {Res(req \o SubSeq(lcc, 1, k), Len(req) + k) : k \in {j \in 0..Len(lcc) : Bytes(req) + Bytes(SubSeq(lcc, 1, j)) <= cap}}

=============================================================================
