----------------------------- MODULE MC_Derive -----------------------------
(* Spec-level sanity of Derive / help over the catalogue: for every          *)
(* declaration and every token list up to MaxToks over that declaration's    *)
(* own alphabet, Parse and HelpEnum are total (TLC evaluates them without    *)
(* error), errors are of the six kinds, an accepted line fills every field,  *)
(* `help` lists every visible command exactly once.                          *)
EXTENDS DeriveTrace

CONSTANT MaxToks

VARIABLES d, ts
mvars == <<d, ts, l>>

Types == {"u8", "i8", "u16", "i16", "u32", "i32", "u64", "i64", "u128", "i128", "usize", "isize", "f32", "f64", "char", "bool", "str"}
Ints == Types \ {"f32", "f64", "char", "bool", "str"}
TypeSeq == <<"u8", "i8", "u16", "i16", "u32", "i32", "u64", "i64", "u128", "i128", "usize", "isize", "f32", "f64", "char", "bool", "str">>
(* conversions of the two value tokens "5" and "x" *)
CV == [i \in 1..17 |-> [tok |-> <<53>>, ty |-> TypeSeq[i],
                        ok |-> TypeSeq[i] \in Ints \cup {"f32", "f64", "char"},
                        val |-> IF TypeSeq[i] \in {"f32", "f64"} THEN <<53, 46, 48>> ELSE <<53>>]]
      \o [i \in 1..17 |-> [tok |-> <<120>>, ty |-> TypeSeq[i], ok |-> TypeSeq[i] = "char", val |-> <<120>>]]

RECURSIVE VariantsOf(_, _)
VariantsOf(id, depth) ==
    LET e == EnumOf(id) IN
    IF depth > 3 THEN {}
    ELSE IF e.kind = "group" THEN UNION {VariantsOf(e.members[m].enum, depth + 1) : m \in 1..Len(e.members)}
    ELSE {e.variants[i] : i \in 1..Len(e.variants)}
         \cup UNION {IF e.variants[i].sub = "" THEN {} ELSE VariantsOf(e.variants[i].sub, depth + 1) : i \in 1..Len(e.variants)}

Alpha(id) ==
    LET vs == VariantsOf(id, 0) IN
    {v.name_cp : v \in vs}
    \cup UNION {{<<45, 45>> \o v.args[k].long_cp : k \in {k \in 1..Len(v.args) : v.args[k].has_long}} : v \in vs}
    \cup UNION {{<<45, v.args[k].short_cp>> : k \in {k \in 1..Len(v.args) : v.args[k].short_cp # 0}} : v \in vs}
    \cup {<<53>>, <<120>>, <<45, 45>>, <<45, 122>>, <<45, 104>>, HelpWord}

MInit == d \in 1..Len(Cat.enums) /\ ts = <<>> /\ l = 0
MNext == Len(ts) < MaxToks /\ (\E t \in Alpha(Cat.enums[d].id) : ts' = Append(ts, t)) /\ UNCHANGED <<d, l>>
MSpec == MInit /\ [][MNext]_mvars

Kinds == {"unknown", "unexpected-arg", "unexpected-long", "unexpected-short", "parse-value", "missing"}

RECURSIVE NoDupLines(_)
NoDupLines(ls) == \A i, j \in 1..Len(ls) : i # j => ls[i] # ls[j]

Inv ==
    LET id == Cat.enums[d].id IN
    /\ ts # <<>> =>
         LET r == Parse(CV, id, ts)
             h == HelpEnum(id, <<>>, ts[1], Tail(ts))
         IN /\ (r.ok => r.kind = "" /\ r.v # "")
            /\ (~r.ok => r.kind \in Kinds)
            /\ (r.kind = "parse-value" => r.ty \in Types)
            /\ h = UnknownHelp \/ h = OpenHelp \/ Len(h) >= 2
    /\ NoDupLines(ListLines(id))
=============================================================================
