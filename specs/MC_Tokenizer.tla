---------------------------- MODULE MC_Tokenizer ----------------------------
(* Spec-level laws of Tokenizer over a small alphabet:                     *)
(*  lists: every list of <= MaxToks strings of <= MaxLen characters         *)
(*    (empty strings included, at every position) survives                 *)
(*    Render -> Tokenize unchanged, under both readings of OpenEscape;     *)
(*  lines: every line of <= MaxLine characters: structural facts.          *)
EXTENDS Tokenizer, TLC, FiniteSets

CONSTANTS MaxToks, MaxLen, MaxLine

Alpha == {97, SP, QUOTE, BSL, 45, 233}

VARIABLES ts, line

InitL == ts = <<>> /\ line = <<>>
(* grow the last string, or start a new (empty) one *)
NextL == /\ UNCHANGED line
         /\ \/ /\ ts # <<>> /\ Len(ts[Len(ts)]) < MaxLen
               /\ \E c \in Alpha : ts' = AppendLast(ts, c)
            \/ /\ Len(ts) < MaxToks /\ ts' = Append(ts, <<>>)
SpecLists == InitL /\ [][NextL]_<<ts, line>>

RoundTrip == \A r \in TokenizeSet(Render(ts)) : r = ts

InitS == ts = <<>> /\ line = <<>>
NextS == Len(line) < MaxLine /\ (\E c \in Alpha : line' = Append(line, c)) /\ UNCHANGED ts
SpecLines == InitS /\ [][NextS]_<<ts, line>>

RECURSIVE Count(_, _, _, _)
Count(t, c, i, n) == IF i > Len(t) THEN n ELSE Count(t, c, i + 1, IF t[i] = c THEN n + 1 ELSE n)
RECURSIVE TotalLen(_, _, _)
TotalLen(l, i, n) == IF i > Len(l) THEN n ELSE TotalLen(l, i + 1, n + Len(l[i]))

LineInv ==
    LET t == Tokenize(line) IN
    \* nothing is invented: tokens are no longer than the line
    /\ TotalLen(t, 1, 0) <= Len(line)
    \* a line without quotes is split at runs of spaces, and only there
    /\ Count(line, QUOTE, 1, 0) = 0 =>
          /\ \A i \in 1..Len(t) : t[i] # <<>> /\ Count(t[i], SP, 1, 0) = 0
          /\ TotalLen(t, 1, 0) = Len(line) - Count(line, SP, 1, 0)
    \* no token at all iff the line is blank
    /\ (t = <<>>) <=> (\A i \in 1..Len(line) : line[i] = SP)
=============================================================================
