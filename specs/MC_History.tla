----------------------------- MODULE MC_History -----------------------------
(* Closed state graph of the history for one buffer size over a pool of    *)
(* lines.  Two uses:                                                       *)
(*  - graph (cfg with VIEW): every transition printed with a shortest path,*)
(*    replayed on the real History and the real Cli;                       *)
(*  - law (cfg with `subs` as real state, bounded): the operational        *)
(*    push/evict rule equals the declarative retention law.                *)
EXTENDS History, TLC, Json

CONSTANTS HCap, MaxSubs
Pool == {<<97>>, <<98>>, <<97, 98>>, <<233>>, <<20013>>, <<97, 128512>>, <<>>, <<97, 98, 99, 100, 101, 102, 103>>}

VARIABLES s, path, subs

Op(o, t) == [o |-> o, t |-> t]

Init == s = HsInit /\ path = <<>> /\ subs = <<>>

DoPush == \E l \in Pool : \E s2 \in Push(s, l, HCap) :
            /\ s' = s2
            /\ path' = Append(path, Op("push", l))
            /\ subs' = IF Recordable(l, HCap) THEN Append(subs, l) ELSE subs
DoOlder == s' = Older(s).s /\ path' = Append(path, Op("older", <<>>)) /\ UNCHANGED subs
DoNewer == \E x \in Newer(s) : s' = x.s /\ path' = Append(path, Op("newer", <<>>)) /\ UNCHANGED subs

Next == DoPush \/ DoOlder \/ DoNewer
Spec == Init /\ [][Next]_<<s, path, subs>>

View == s
ViewLaw == <<s, subs>>
Emit == PrintT("T|" \o ToJson(path'))
Bound == Len(subs) <= MaxSubs

Inv == HsOk(s, HCap)
Law == s.hist = LongestFittingSuffix(DedupLast(subs), HCap)

(* navigation order: Up shows entries newest to oldest, Down comes back *)
NavProp == [][/\ (path' = Append(path, Op("older", <<>>)) /\ s.nav < Len(s.hist)) => s'.nav = s.nav + 1
              /\ (path' = Append(path, Op("older", <<>>)) /\ s.nav = Len(s.hist)) => s' = s
              /\ (path' = Append(path, Op("newer", <<>>)) /\ s.nav > 0) => s'.nav = s.nav - 1
              /\ (path' # path /\ path'[Len(path')].o # "push") => s'.hist = s.hist]_<<s, path, subs>>
=============================================================================
