-------------------------------- MODULE Cli --------------------------------
(***************************************************************************)
(* The command line interface as a whole (cli.rs): composition of decoder, *)
(* editor, history, tokenizer, argument classification, help routing,      *)
(* completion and the output protocol.                                     *)
(*                                                                         *)
(* Abstract state   st  = [line, cur, hist, nav, prompt]                   *)
(* Configuration    cfg = [cmd, hcap, names, histOn, acOn, helpOn]         *)
(*   cmd / hcap: sizes of command and history buffer in bytes; names: the  *)
(*   SET of visible command names; the three feature switches.             *)
(* Handler script   hs  = [chunks, setp, p]: what the application's        *)
(*   handler does when it is called: output chunks and optionally a new    *)
(*   prompt.  A chunk is [m, t]: method ("w" write_str, "wl" writeln_str,  *)
(*   "u" ufmt, "f" core::fmt) and text.                                    *)
(*                                                                         *)
(* For every input event the operators below give the SET of admissible    *)
(* outcomes [st, calls, out]: new state, handler invocations, and the      *)
(* bytes the library is modelled to emit (`out` describes the present      *)
(* output protocol and is used by the design-level models only; trace      *)
(* validation judges the real bytes through Terminal instead).             *)
(***************************************************************************)
EXTENDS Decoder, Editor, History, Tokenizer, HelpReq, Autocomplete, Terminal

St(line, cur, hist, nav, prompt) ==
    [line |-> line, cur |-> cur, hist |-> hist, nav |-> nav, prompt |-> prompt]

StInit(prompt) == St(<<>>, 0, <<>>, 0, prompt)

Outcome(st, calls, out) == [st |-> st, calls |-> calls, out |-> out]

CR == 13
LF == 10
CRLF == <<13, 10>>
ESC == 27
CsiSeq(final) == <<27, 91, final>>
CURSOR_FORWARD == CsiSeq(67)
CURSOR_BACKWARD == CsiSeq(68)
INSERT_CHAR == CsiSeq(64)
DELETE_CHAR == CsiSeq(80)
CLEAR_LINE == <<27, 91, 50, 75>>

RECURSIVE Repeat(_, _)
Repeat(bs, k) == IF k <= 0 THEN <<>> ELSE bs \o Repeat(bs, k - 1)

-----------------------------------------------------------------------------
(* application output (writer.rs) *)

RECURSIVE ChunkTextFrom(_, _, _)
ChunkTextFrom(chunks, i, acc) ==
    IF i > Len(chunks) THEN acc
    ELSE ChunkTextFrom(chunks, i + 1,
            acc \o chunks[i].t \o (IF chunks[i].m = "wl" THEN <<LF>> ELSE <<>>))
(* the text written, a writeln contributing a final LF *)
ChunkText(chunks) == ChunkTextFrom(chunks, 1, <<>>)

RECURSIVE ConvFrom(_, _, _)
ConvFrom(t, i, acc) ==
    IF i > Len(t) THEN acc
    ELSE ConvFrom(t, i + 1, IF t[i] = LF THEN acc \o CRLF ELSE acc \o Encode(t[i]))
(* the bytes that reach the sink: each LF becomes CR LF, nothing else changes *)
Conv(t) == ConvFrom(t, 1, <<>>)

(* one line break is added iff the output is non-empty and does not end with one *)
NeedsBreak(t) == t # <<>> /\ t[Len(t)] # LF

RECURSIVE LinesFrom(_, _, _, _)
LinesFrom(t, i, cur, acc) ==
    IF i > Len(t) THEN (IF cur = <<>> THEN acc ELSE Append(acc, cur))
    ELSE IF t[i] = LF THEN LinesFrom(t, i + 1, <<>>, Append(acc, cur))
    ELSE IF t[i] = CR THEN LinesFrom(t, i + 1, cur, acc)
    ELSE LinesFrom(t, i + 1, Append(cur, t[i]), acc)
(* the rows the text occupies on a terminal (CR of a CR LF pair is not a cell) *)
Lines(t) == LinesFrom(t, 1, <<>>, <<>>)

-----------------------------------------------------------------------------
(* keys *)

EdOf(st) == Ed(st.line, st.cur)
HsOfSt(st) == Hs(st.hist, st.nav)
WithEd(st, e) == [st EXCEPT !.line = e.line, !.cur = e.cur]
Same(st) == {Outcome(st, <<>>, <<>>)}

Redraw(st) == <<CR>> \o CLEAR_LINE \o EncodeAll(st.prompt) \o EncodeAll(st.line)
                 \o Repeat(CURSOR_BACKWARD, Len(st.line) - st.cur)

KeyChar(cfg, st, cp) ==
    LET e2 == Insert(EdOf(st), cp, cfg.cmd) IN
    IF e2 = EdOf(st) THEN Same(st)
    ELSE {Outcome(WithEd(st, e2), <<>>,
                  (IF st.cur < Len(st.line) THEN INSERT_CHAR ELSE <<>>) \o Encode(cp))}

KeyBackspace(cfg, st) ==
    IF st.cur = 0 THEN Same(st)
    ELSE {Outcome(WithEd(st, Backspace(EdOf(st))), <<>>, CURSOR_BACKWARD \o DELETE_CHAR)}

KeyLeft(cfg, st) ==
    IF st.cur = 0 THEN Same(st) ELSE {Outcome(WithEd(st, Left(EdOf(st))), <<>>, CURSOR_BACKWARD)}

KeyRight(cfg, st) ==
    IF st.cur = Len(st.line) THEN Same(st)
    ELSE {Outcome(WithEd(st, Right(EdOf(st))), <<>>, CURSOR_FORWARD)}

Recalled(st, x) ==
    IF x.show = <<>> THEN Outcome(st, <<>>, <<>>)
    ELSE LET st2 == [st EXCEPT !.line = x.show[1], !.cur = Len(x.show[1]), !.nav = x.s.nav]
         IN Outcome(st2, <<>>, Redraw(st2))

KeyUp(cfg, st) == IF ~cfg.histOn THEN Same(st) ELSE {Recalled(st, Older(HsOfSt(st)))}
KeyDown(cfg, st) == IF ~cfg.histOn THEN Same(st) ELSE {Recalled(st, x) : x \in Newer(HsOfSt(st))}

(* the built-in `help` is a completion candidate; when help is compiled    *)
(* out whether it is still offered is left open (OpenHelpCandidate)        *)
NameSets(cfg) == IF cfg.helpOn THEN {cfg.names \cup {HelpName}} ELSE {cfg.names \cup {HelpName}, cfg.names}

KeyTab(cfg, st) ==
    IF ~cfg.acOn THEN Same(st)
    ELSE {Outcome([st EXCEPT !.line = r.line, !.cur = r.cur], <<>>,
                  IF r.cur > st.cur THEN EncodeAll(SubSeq(r.line, st.cur + 1, Len(r.line))) ELSE <<>>)
            : r \in UNION {Complete(ns, st.line, st.cur, cfg.cmd) : ns \in NameSets(cfg)}}

Call(name, items) == [name |-> name, args |-> items]

(* placeholder for the text of a help answer in the design-level models *)
HelpBytes == <<63, 13, 10>>

(* Enter: exactly one handler call iff the line has a token and is not a   *)
(* help request; the line is cleared, history updated, one prompt printed  *)
KeyEnter(cfg, st, hs) ==
    LET pushes == IF cfg.histOn THEN Push(HsOfSt(st), st.line, cfg.hcap) ELSE {HsOfSt(st)}
        After(h, prompt) == St(<<>>, 0, h.hist, h.nav, prompt)
        text == ChunkText(hs.chunks)
        Called(h, toks) ==
            LET p2 == IF hs.setp THEN hs.p ELSE st.prompt IN
            Outcome(After(h, p2), <<Call(toks[1], Classify(Tail(toks)))>>,
                    CRLF \o Conv(text) \o (IF NeedsBreak(text) THEN CRLF ELSE <<>>) \o EncodeAll(p2))
        Helped(h) == Outcome(After(h, st.prompt), <<>>, CRLF \o HelpBytes \o EncodeAll(st.prompt))
        Blank(h) == Outcome(After(h, st.prompt), <<>>, CRLF \o EncodeAll(st.prompt))
    IN UNION {
         UNION { IF toks = <<>> THEN {Blank(h)}
                 ELSE LET kind == IF cfg.helpOn THEN HelpKind(toks[1], Classify(Tail(toks))) ELSE "no" IN
                      (IF kind \in {"no", "open"} THEN {Called(h, toks)} ELSE {})
                      \cup (IF kind \in {"all", "cmd", "open"} THEN {Helped(h)} ELSE {})
               : toks \in TokenizeSet(st.line) }
         : h \in pushes }

(* a decoded key event applied to the CLI *)
KeyStep(cfg, st, key, hs) ==
    IF key.k = "none" THEN Same(st)
    ELSE IF key.k = "char" THEN KeyChar(cfg, st, key.cp)
    ELSE IF key.k = "bs" THEN KeyBackspace(cfg, st)
    ELSE IF key.k = "left" THEN KeyLeft(cfg, st)
    ELSE IF key.k = "right" THEN KeyRight(cfg, st)
    ELSE IF key.k = "up" THEN KeyUp(cfg, st)
    ELSE IF key.k = "down" THEN KeyDown(cfg, st)
    ELSE IF key.k = "tab" THEN KeyTab(cfg, st)
    ELSE KeyEnter(cfg, st, hs)

-----------------------------------------------------------------------------
(* application-side API *)

(* Cli::write: output above the line being edited, which is redisplayed *)
ApiWrite(cfg, st, chunks) ==
    LET text == ChunkText(chunks) IN
    {Outcome(st, <<>>,
             <<CR>> \o CLEAR_LINE \o Conv(text) \o (IF NeedsBreak(text) THEN CRLF ELSE <<>>)
             \o EncodeAll(st.prompt) \o EncodeAll(st.line)
             \o Repeat(CURSOR_BACKWARD, Len(st.line) - st.cur))}

(* Cli::set_prompt *)
ApiSetPrompt(cfg, st, p) ==
    LET st2 == [st EXCEPT !.prompt = p] IN {Outcome(st2, <<>>, Redraw(st2))}

-----------------------------------------------------------------------------
(* what the terminal must show whenever a call has returned (C06) *)
Sync(term, st) == Shows(term, st.prompt \o st.line, Len(st.prompt) + st.cur)

StOk(cfg, st) ==
    /\ EdOk(EdOf(st), cfg.cmd)
    /\ HsOk(HsOfSt(st), cfg.hcap)
    /\ ~cfg.histOn => (st.hist = <<>> /\ st.nav = 0)

=============================================================================
