---------------------------- MODULE MC_EditorBuf ----------------------------
(* Closure of the implementation-shaped editor for one buffer size: every   *)
(* precondition of its unchecked operations holds in every reachable state  *)
(* (Assert), the structural invariant is preserved, and each step refines   *)
(* the corresponding step of the ideal Editor.                              *)
EXTENDS EditorBuf, TLC

CONSTANTS Cap, Chars
VARIABLE b

RemoveAt(x) ==
    IF x.cur >= Len(x.line) THEN x
    ELSE Ed(SubSeq(x.line, 1, x.cur) \o SubSeq(x.line, x.cur + 2, Len(x.line)), x.cur)

RECURSIVE InsertText(_, _, _, _)
InsertText(e, t, i, cap) == IF i > Len(t) THEN e ELSE InsertText(Insert(e, t[i], cap), t, i + 1, cap)

Step(r, abstract) ==
    /\ Assert(r.pre, <<"precondition of an unchecked operation violated", b, r>>)
    /\ Assert(Abstract(r.b) = abstract, <<"buffer does not refine the ideal editor", b, r.b, abstract>>)
    /\ b' = r.b

(* recall / completion insert several characters at once: all or nothing *)
Texts == {<<c>> : c \in Chars} \cup {<<c, d>> : c \in Chars, d \in Chars}

Init == b = BufInit(Cap)
Next ==
    \/ \E t \in Texts :
          LET a == Abstract(b)
              fits == Bytes(a.line) + Bytes(t) <= Cap
          IN Step(BInsert(b, EncodeAll(t)), IF fits THEN InsertText(a, t, 1, Cap) ELSE a)
    \/ Step(BBackspace(b), Backspace(Abstract(b)))
    \/ Step(BRemove(b), RemoveAt(Abstract(b)))
    \/ Step(BLeft(b), Left(Abstract(b)))
    \/ Step(BRight(b), Right(Abstract(b)))
    \/ Step(BClear(b), Clear)
    \/ (Assert(BEnterPre(b), <<"Enter precondition", b>>) /\ UNCHANGED b)
Spec == Init /\ [][Next]_b

(* dead bytes (beyond valid) are not part of the state that matters *)
View == <<Text(b), b.cursor>>
Inv == BufOk(b, Cap) /\ EdOk(Abstract(b), Cap)
=============================================================================
