-------------------------------- MODULE Args --------------------------------
(***************************************************************************)
(* Classification of the tokens after the command name (arguments.rs).     *)
(* Items: [k |-> "dd"|"long"|"short"|"value", t |-> text]; a short option  *)
(* carries its single scalar as a one-element text.                        *)
(***************************************************************************)
EXTENDS Utf8

DASH == 45
Item(k, t) == [k |-> k, t |-> t]

RECURSIVE Shorts(_, _, _)
Shorts(t, i, acc) == IF i > Len(t) THEN acc ELSE Shorts(t, i + 1, Append(acc, Item("short", <<t[i]>>)))

RECURSIVE ClassifyFrom(_, _, _, _)
ClassifyFrom(ts, i, valuesOnly, acc) ==
    IF i > Len(ts) THEN acc
    ELSE LET t == ts[i] IN
      IF valuesOnly THEN ClassifyFrom(ts, i + 1, TRUE, Append(acc, Item("value", t)))
      ELSE IF Len(t) > 1 /\ t[1] = DASH THEN
          IF t[2] = DASH THEN
              IF Len(t) = 2 THEN ClassifyFrom(ts, i + 1, TRUE, Append(acc, Item("dd", <<>>)))
              ELSE ClassifyFrom(ts, i + 1, FALSE, Append(acc, Item("long", SubSeq(t, 3, Len(t)))))
          ELSE ClassifyFrom(ts, i + 1, FALSE, acc \o Shorts(t, 2, <<>>))
      ELSE ClassifyFrom(ts, i + 1, FALSE, Append(acc, Item("value", t)))

Classify(ts) == ClassifyFrom(ts, 1, FALSE, <<>>)

RECURSIVE OriginFrom(_, _, _, _)
(* for every item, the index of the token it came from *)
OriginFrom(ts, i, valuesOnly, acc) ==
    IF i > Len(ts) THEN acc
    ELSE LET t == ts[i] IN
      IF ~valuesOnly /\ Len(t) > 1 /\ t[1] = DASH /\ t[2] # DASH
      THEN OriginFrom(ts, i + 1, FALSE, acc \o [k \in 1..(Len(t) - 1) |-> i])
      ELSE OriginFrom(ts, i + 1, valuesOnly \/ t = <<DASH, DASH>>, Append(acc, i))
Origin(ts) == OriginFrom(ts, 1, FALSE, <<>>)

(* Re-joining classified items gives back the token list: consecutive      *)
(* short options that came from one cluster cannot be told apart from      *)
(* separate clusters, so Rejoin is defined on the canonical form where     *)
(* every short option is written as its own `-x` token; RejoinOk states    *)
(* the law without that ambiguity: flattening clusters in the token list   *)
(* and re-joining the items agree.                                         *)
RECURSIVE RejoinFrom(_, _, _)
RejoinFrom(items, i, acc) ==
    IF i > Len(items) THEN acc
    ELSE LET it == items[i] IN
         RejoinFrom(items, i + 1,
            Append(acc, IF it.k = "dd" THEN <<DASH, DASH>>
                        ELSE IF it.k = "long" THEN <<DASH, DASH>> \o it.t
                        ELSE IF it.k = "short" THEN <<DASH>> \o it.t
                        ELSE it.t))
Rejoin(items) == RejoinFrom(items, 1, <<>>)

RECURSIVE SplitCluster(_, _, _)
SplitCluster(t, i, acc) == IF i > Len(t) THEN acc ELSE SplitCluster(t, i + 1, Append(acc, <<DASH, t[i]>>))

RECURSIVE FlattenFrom(_, _, _, _)
FlattenFrom(ts, i, valuesOnly, acc) ==
    IF i > Len(ts) THEN acc
    ELSE LET t == ts[i] IN
      IF ~valuesOnly /\ Len(t) > 1 /\ t[1] = DASH /\ t[2] # DASH
      THEN FlattenFrom(ts, i + 1, FALSE, acc \o SplitCluster(t, 2, <<>>))
      ELSE FlattenFrom(ts, i + 1, valuesOnly \/ t = <<DASH, DASH>>, Append(acc, t))
Flatten(ts) == FlattenFrom(ts, 1, FALSE, <<>>)

RejoinOk(ts) == Rejoin(Classify(ts)) = Flatten(ts)

=============================================================================
