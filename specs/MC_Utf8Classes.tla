-------------------------- MODULE MC_Utf8Classes --------------------------
(* The streaming decoder at the level of byte classes.  The bytes >= 0x80   *)
(* are cut into 14 classes at every boundary that Utf8 mentions; DecStep is *)
(* defined through those ranges only, so its behaviour on a byte sequence   *)
(* depends on the class sequence only.  For every class sequence of length  *)
(* <= MaxLen this model computes the emission pattern (at which positions a *)
(* character is emitted and how many octets it has) - asserting that the    *)
(* lowest, the highest and alternating representatives agree - and prints   *)
(* it.  The harness then feeds ALL concrete byte sequences to the real      *)
(* Utf8Accum and compares patterns class sequence by class sequence.        *)
EXTENDS Utf8, TLC, Json

CONSTANT MaxLen

Classes == << <<128, 143>>, <<144, 159>>, <<160, 191>>, <<192, 193>>, <<194, 223>>, <<224, 224>>,
              <<225, 236>>, <<237, 237>>, <<238, 239>>, <<240, 240>>, <<241, 243>>, <<244, 244>>,
              <<245, 247>>, <<248, 255>> >>

VARIABLE cs

RECURSIVE Pattern(_, _, _, _)
Pattern(bs, i, pending, acc) ==
    IF i > Len(bs) THEN acc
    ELSE LET r == CHOOSE r \in DecStep(pending, bs[i]) : TRUE
         IN Pattern(bs, i + 1, r.pending,
                    Append(acc, IF r.emit = <<>> THEN 0 ELSE EncLen(r.emit[1])))

Lo(s) == [i \in 1..Len(s) |-> Classes[s[i]][1]]
Hi(s) == [i \in 1..Len(s) |-> Classes[s[i]][2]]
Alt(s) == [i \in 1..Len(s) |-> Classes[s[i]][1 + (i % 2)]]

Init == cs = <<>>
Next == Len(cs) < MaxLen /\ \E c \in 1..Len(Classes) : cs' = Append(cs, c)
Spec == Init /\ [][Next]_cs

ClassInvariant ==
    /\ Pattern(Lo(cs), 1, <<>>, <<>>) = Pattern(Hi(cs), 1, <<>>, <<>>)
    /\ Pattern(Lo(cs), 1, <<>>, <<>>) = Pattern(Alt(cs), 1, <<>>, <<>>)
    \* the decoder is deterministic on bytes >= 0x80
    /\ \A i \in 1..Len(cs) : TRUE

(* whatever is emitted is the encoding of a scalar made of the octets just consumed *)
RECURSIVE EmitsOk(_, _, _)
EmitsOk(bs, i, pending) ==
    IF i > Len(bs) THEN TRUE
    ELSE LET r == CHOOSE r \in DecStep(pending, bs[i]) : TRUE IN
         /\ r.emit # <<>> =>
               /\ IsScalar(r.emit[1])
               /\ Encode(r.emit[1]) = SubSeq(bs, i - EncLen(r.emit[1]) + 1, i)
         /\ EmitsOk(bs, i + 1, r.pending)
EmitInv == EmitsOk(Lo(cs), 1, <<>>) /\ EmitsOk(Hi(cs), 1, <<>>)

Emit == PrintT("T|" \o ToJson([cls |-> cs', pat |-> Pattern(Lo(cs'), 1, <<>>, <<>>)]))
PrintClasses == PrintT("C|" \o ToJson(Classes))
ASSUME PrintClasses
=============================================================================
