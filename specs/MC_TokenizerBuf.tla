--------------------------- MODULE MC_TokenizerBuf ---------------------------
(* Tokens::new as implemented (token.rs): the line is tokenised IN PLACE, byte *)
(* by byte, tokens separated by NUL, quotes and escapes removed.  For every    *)
(* line of <= MaxLine symbols: the write position never overtakes the read     *)
(* position (so nothing unread is overwritten and get_unchecked(..insert) is   *)
(* in range), the result is well-formed text, and splitting it at NUL gives    *)
(* exactly Tokenizer!Tokenize(line) - TokensIter included (an empty token list *)
(* and a single empty token are distinguished by the `empty` flag).            *)
EXTENDS Tokenizer, TLC

CONSTANT MaxLine
VARIABLE line

Alpha == {97, SP, QUOTE, BSL, 45, 233}

RECURSIVE Run(_, _, _, _, _, _)
(* bytes (the buffer, modified in place), read position i (1-based), insert (0-based count), mode, empty, ok *)
Run(bytes, i, insert, mode, empty, ok) ==
    IF i > Len(bytes) THEN [bytes |-> bytes, insert |-> insert, empty |-> empty, ok |-> ok]
    ELSE LET b == bytes[i]
             Put(bs, c) == [bs EXCEPT ![insert + 1] = c]
             ok2 == ok /\ insert < i          \* a write at `insert` touches only bytes already read
         IN
      IF mode = "space" THEN
          IF b = QUOTE THEN
              IF ~empty THEN Run(Put(bytes, 0), i + 1, insert + 1, "quoted", FALSE, ok2)
              ELSE Run(bytes, i + 1, insert, "quoted", FALSE, ok)
          ELSE IF b # SP /\ b # 0 THEN
              IF ~empty THEN Run([Put(bytes, 0) EXCEPT ![insert + 2] = b], i + 1, insert + 2, "normal", FALSE, ok /\ insert + 1 < i)
              ELSE Run(Put(bytes, b), i + 1, insert + 1, "normal", FALSE, ok2)
          ELSE Run(bytes, i + 1, insert, "space", empty, ok)
      ELSE IF mode = "normal" THEN
          IF b = SP \/ b = 0 THEN Run(bytes, i + 1, insert, "space", empty, ok)
          ELSE Run(Put(bytes, b), i + 1, insert + 1, "normal", empty, ok2)
      ELSE IF mode = "quoted" THEN
          IF b = QUOTE \/ b = 0 THEN Run(bytes, i + 1, insert, "space", empty, ok)
          ELSE IF b = BSL THEN Run(bytes, i + 1, insert, "escape", empty, ok)
          ELSE Run(Put(bytes, b), i + 1, insert + 1, "quoted", empty, ok2)
      ELSE Run(Put(bytes, b), i + 1, insert + 1, "quoted", empty, ok2)

RECURSIVE SplitNul(_, _, _, _)
SplitNul(bs, i, cur, acc) ==
    IF i > Len(bs) THEN Append(acc, cur)
    ELSE IF bs[i] = 0 THEN SplitNul(bs, i + 1, <<>>, Append(acc, cur))
    ELSE SplitNul(bs, i + 1, Append(cur, bs[i]), acc)

(* TokensIter: nothing when `empty`, otherwise the pieces between NULs *)
IterTokens(r) ==
    IF r.empty THEN <<>>
    ELSE LET parts == SplitNul(SubSeq(r.bytes, 1, r.insert), 1, <<>>, <<>>) IN
         [k \in 1..Len(parts) |-> Decode(parts[k])]

Init == line = <<>>
Next == Len(line) < MaxLine /\ \E c \in Alpha : line' = Append(line, c)
Spec == Init /\ [][Next]_line

Inv == LET r == Run(EncodeAll(line), 1, 0, "space", TRUE, TRUE) IN
       /\ r.ok
       /\ r.insert <= Len(EncodeAll(line))
       /\ Decode(SubSeq(r.bytes, 1, r.insert)) # Bad
       /\ IterTokens(r) = Tokenize(line)
=============================================================================
