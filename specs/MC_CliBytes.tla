---------------------------- MODULE MC_CliBytes ----------------------------
(* The whole CLI at BYTE grain for small buffers: Decoder!Feed composed with  *)
(* Cli!KeyStep, every byte of a small alphabet (a 1-byte and a 2-byte         *)
(* character, both line terminators, ESC, `[`, CSI finals, BS, TAB, an        *)
(* ignored control) in every decoder state.  MC_Cli explores key events with  *)
(* the decoder at rest; this model closes the gap: partial escape sequences,  *)
(* open terminator pairs and pending UTF-8 octets interleaved with editing,   *)
(* recall, completion and dispatch.  Invariants as in MC_Cli; every explored  *)
(* transition is printed with a shortest byte path for replay on the real Cli. *)
EXTENDS Cli, TLC, Json

CONSTANTS CmdCap, HistCap, Bytes0

VARIABLES st, dec, term, path

Names == {<<97, 98>>, <<97, 233>>, <<98>>}
Cfg == [cmd |-> CmdCap, hcap |-> HistCap, names |-> Names, histOn |-> TRUE, acOn |-> TRUE, helpOn |-> TRUE]
Prompt == <<36, 32>>
NoScript == [chunks |-> <<>>, setp |-> FALSE, p |-> <<>>]

Init == /\ st = StInit(Prompt) /\ dec = DecInit
        /\ term = [TermInit EXCEPT !.row = <<36>>, !.col = 2]
        /\ path = <<>>

Next == \E b \in Bytes0 : \E o \in Feed(dec, b) : \E k \in KeyStep(Cfg, st, o.ev, NoScript) :
            /\ dec' = o.d
            /\ st' = k.st
            /\ term' = LET t2 == TermFeedAll([term EXCEPT !.rows = <<>>], k.out) IN [t2 EXCEPT !.row = TrimRight(t2.row)]
            /\ path' = Append(path, b)
Spec == Init /\ [][Next]_<<st, dec, term, path>>

View == <<st, dec, term>>
Emit == PrintT("T|" \o ToJson(path'))

Inv == StOk(Cfg, st) /\ Sync(term, st)
(* bytes that are swallowed by the decoder change nothing that can be seen *)
QuietProp == [][\A b \in Bytes0 : (path' = Append(path, b) /\ \A o \in Feed(dec, b) : o.ev = NoKey) => (st' = st /\ term'.row = term.row /\ term'.col = term.col)]_<<st, dec, term, path>>
=============================================================================
