----------------------------- MODULE DecoderInd -----------------------------
(* Apalache: the structural invariant of the input decoder is INDUCTIVE over  *)
(* ALL 256 byte values (TLC closes the graph over boundary representatives    *)
(* only).  The pending UTF-8 octets are abstracted to how many have been      *)
(* collected (have) and how many the lead byte announced (need); the value    *)
(* is irrelevant to the control structure.  Mirrors Decoder!Feed, open        *)
(* choices included.                                                          *)
EXTENDS Integers

VARIABLES
    \* @type: Bool;
    csi,
    \* @type: Bool;
    esc,
    \* @type: Str;
    pair,
    \* @type: Int;
    have,
    \* @type: Int;
    need,
    \* @type: Str;
    key

LeadLen(b) == IF b < 128 THEN 1 ELSE IF b >= 194 /\ b <= 223 THEN 2
              ELSE IF b >= 224 /\ b <= 239 THEN 3 ELSE IF b >= 240 /\ b <= 244 THEN 4 ELSE 0

IndInv ==
    /\ pair \in {"none", "cr", "lf"}
    /\ key \in {"none", "char", "enter", "tab", "bs", "up", "down", "left", "right"}
    /\ have >= 0 /\ have <= 3 /\ need >= 0 /\ need <= 4
    /\ (have = 0) <=> (need = 0)
    /\ have > 0 => have < need
    /\ csi => ~esc
    /\ pair # "none" => (~csi /\ ~esc)
    \* a terminator that produced an Enter leaves an open pair, and only that does
    /\ pair # "none" => key = "enter"

Init == csi = FALSE /\ esc = FALSE /\ pair = "none" /\ have = 0 /\ need = 0 /\ key = "none"
IndInit ==
    /\ csi \in BOOLEAN /\ esc \in BOOLEAN /\ pair \in {"none", "cr", "lf"}
    /\ have \in 0..3 /\ need \in 0..4
    /\ key \in {"none", "char", "enter", "tab", "bs", "up", "down", "left", "right"}
    /\ IndInv

KeepOrDrop == \/ UNCHANGED <<have, need>>
              \/ (have' = 0 /\ need' = 0)

Ground(b) ==
    IF esc /\ b = 91 THEN csi' = TRUE /\ esc' = FALSE /\ pair' = "none" /\ key' = "none" /\ KeepOrDrop
    ELSE IF b = 27 THEN csi' = FALSE /\ esc' = TRUE /\ pair' = "none" /\ key' = "none" /\ KeepOrDrop
    ELSE IF b = 13 THEN
        /\ csi' = FALSE /\ esc' = FALSE /\ KeepOrDrop
        /\ IF pair = "lf" THEN pair' = "none" /\ key' = "none" ELSE pair' = "cr" /\ key' = "enter"
    ELSE IF b = 10 THEN
        /\ csi' = FALSE /\ esc' = FALSE /\ KeepOrDrop
        /\ IF pair = "cr" THEN pair' = "none" /\ key' = "none" ELSE pair' = "lf" /\ key' = "enter"
    ELSE IF b < 32 THEN
        /\ csi' = FALSE /\ esc' = FALSE /\ pair' = "none" /\ KeepOrDrop
        /\ key' = IF b = 8 THEN "bs" ELSE IF b = 9 THEN "tab" ELSE "none"
    ELSE IF b = 127 THEN
        /\ csi' = FALSE /\ esc' = FALSE /\ pair' = "none"
        /\ \/ (key' \in {"char", "bs"} /\ have' = 0 /\ need' = 0)
           \/ (key' = "none" /\ KeepOrDrop)
    ELSE
        /\ csi' = FALSE /\ esc' = FALSE /\ pair' = "none"
        /\ IF b < 128 THEN have' = 0 /\ need' = 0 /\ key' = "char"
           ELSE IF LeadLen(b) >= 2 THEN have' = 1 /\ need' = LeadLen(b) /\ key' = "none"
           ELSE IF b >= 128 /\ b <= 191 /\ have > 0 THEN
               \* a continuation byte: accepted (maybe completing the character) or out of range
               \/ (have + 1 = need /\ have' = 0 /\ need' = 0 /\ key' = "char")
               \/ (have + 1 < need /\ have' = have + 1 /\ need' = need /\ key' = "none")
               \/ (have = 1 /\ have' = 0 /\ need' = 0 /\ key' = "none")
           ELSE have' = 0 /\ need' = 0 /\ key' = "none"

Csi(b) ==
    IF b >= 64 /\ b <= 126 THEN
        /\ csi' = FALSE /\ esc' = FALSE /\ pair' = "none" /\ UNCHANGED <<have, need>>
        /\ key' = IF b = 65 THEN "up" ELSE IF b = 66 THEN "down" ELSE IF b = 67 THEN "right" ELSE IF b = 68 THEN "left" ELSE "none"
    ELSE IF b >= 32 /\ b <= 63 THEN UNCHANGED <<csi, esc, pair, have, need>> /\ key' = "none"
    ELSE \/ (UNCHANGED <<csi, esc, pair, have, need>> /\ key' = "none")
         \/ Ground(b)

Next == \E b \in 0..255 : IF csi THEN Csi(b) ELSE Ground(b)
=============================================================================
