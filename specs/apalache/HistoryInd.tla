----------------------------- MODULE HistoryInd -----------------------------
(* Apalache: the retention invariant of History is INDUCTIVE for an arbitrary *)
(* buffer size HCap (TLC only closes the graph for HCap <= 12).  Entries are  *)
(* abstracted to their costs (UTF-8 length + 1, so >= 2); the history is a    *)
(* sequence of at most MaxLen costs (Apalache needs a length bound).          *)
(* IndInv: every cost >= 2 and the costs sum to at most HCap.                 *)
(* Checked as:  IndInit => IndInv (length 0), IndInv /\ Next => IndInv'.       *)
EXTENDS Integers, Sequences, Apalache

CONSTANT
    \* @type: Int;
    HCap

VARIABLE
    \* @type: Seq(Int);
    hist

MaxLen == 6

\* @type: (Int, Int) => Int;
Add(a, b) == a + b
\* @type: Seq(Int) => Int;
Sum(s) == ApaFoldSeqLeft(Add, 0, s)

IndInv ==
    /\ Len(hist) <= MaxLen
    /\ \A i \in DOMAIN hist : hist[i] >= 2
    /\ Sum(hist) <= HCap

ConstInit == HCap \in Nat

IndInit == hist = Gen(MaxLen) /\ IndInv
Init == hist = <<>>

(* submit a line of cost c: not recorded if it cannot fit; otherwise the oldest entries are
   dropped, only as many as necessary, and the line is appended *)
Push(c) ==
    IF c > HCap \/ Len(hist) >= MaxLen THEN UNCHANGED hist
    ELSE \E k \in 0..MaxLen :
            /\ k <= Len(hist)
            /\ Sum(SubSeq(hist, k + 1, Len(hist))) <= HCap - c
            /\ \A j \in 0..MaxLen : j < k => Sum(SubSeq(hist, j + 1, Len(hist))) > HCap - c
            /\ hist' = Append(SubSeq(hist, k + 1, Len(hist)), c)

Next == \E c \in 2..64 : Push(c)
=============================================================================
