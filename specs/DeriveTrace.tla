---------------------------- MODULE DeriveTrace ----------------------------
(***************************************************************************)
(* Trace validation for derived command sets (C09 parsing, C12 help).      *)
(* Each record of TRACE was produced by typing one line into a real Cli    *)
(* whose processor is derived from a declaration of the catalogue (file    *)
(* CATALOGUE); it carries the tokens typed, the handler invocations        *)
(* (structural dump of the parsed value), the ParseError the derived       *)
(* parser returned (when observed through FromRaw::parse), and the text    *)
(* the library printed between the submitted line and the next prompt.     *)
(* FOCUS = C09: lines that are not help requests are judged by Parse.      *)
(* FOCUS = C12: help requests are judged by HelpLines and routing.         *)
(***************************************************************************)
EXTENDS Derive, HelpReq

Rec == ndJsonDeserialize(IOEnv.TRACE)
Focus == IOEnv.FOCUS

VARIABLE l

Chk(tag, cond) == IF cond THEN TRUE ELSE PrintT("FAILED|" \o tag[1]) /\ PrintT(tag) /\ FALSE

RECURSIVE DecodeEach(_, _, _)
DecodeEach(bss, i, acc) == IF i > Len(bss) THEN acc ELSE DecodeEach(bss, i + 1, Append(acc, Decode(bss[i])))
DecodeList(bss) == DecodeEach(bss, 1, <<>>)

RECURSIVE Tree(_)
Tree(r) == [v |-> r.v, f |-> r.f, sub |-> IF r.sub = <<>> THEN <<>> ELSE <<Tree(r.sub[1])>>]

-----------------------------------------------------------------------------
(* text utilities: lines and words of a byte string / of a text *)
RECURSIVE SplitWords(_, _, _, _)
SplitWords(t, i, cur, acc) ==
    IF i > Len(t) THEN (IF cur = <<>> THEN acc ELSE Append(acc, cur))
    ELSE IF t[i] = 32 \/ t[i] = 13 THEN SplitWords(t, i + 1, <<>>, IF cur = <<>> THEN acc ELSE Append(acc, cur))
    ELSE SplitWords(t, i + 1, Append(cur, t[i]), acc)
Words(t) == SplitWords(t, 1, <<>>, <<>>)

RECURSIVE SplitLines(_, _, _, _)
SplitLines(t, i, cur, acc) ==
    IF i > Len(t) THEN (IF cur = <<>> THEN acc ELSE Append(acc, cur))
    ELSE IF t[i] = 10 THEN SplitLines(t, i + 1, <<>>, Append(acc, cur))
    ELSE SplitLines(t, i + 1, Append(cur, t[i]), acc)

RECURSIVE WordLines(_, _, _)
(* non-blank lines as word lists *)
WordLines(ls, i, acc) ==
    IF i > Len(ls) THEN acc
    ELSE LET w == Words(ls[i]) IN WordLines(ls, i + 1, IF w = <<>> THEN acc ELSE Append(acc, w))
TextLines(t) == WordLines(SplitLines(t, 1, <<>>, <<>>), 1, <<>>)

IsHeading(w) == Len(w) = 1 /\ w[1][Len(w[1])] = 58                     \* a single word ending in ':'
IsLabelled(w) == Len(w) > 1 /\ w[1][Len(w[1])] = 58                    \* `Usage: ...`

RECURSIVE Content(_, _, _)
(* what a help text says, layout aside: headings dropped, the label of a  *)
(* labelled line (Usage:) dropped                                          *)
Content(ls, i, acc) ==
    IF i > Len(ls) THEN acc
    ELSE IF IsHeading(ls[i]) THEN Content(ls, i + 1, acc)
    ELSE IF IsLabelled(ls[i]) THEN Content(ls, i + 1, Append(acc, Tail(ls[i])))
    ELSE Content(ls, i + 1, Append(acc, ls[i]))

-----------------------------------------------------------------------------
(* expected help, as lists of word lists *)

RECURSIVE ListLines(_)
RECURSIVE ListVariants(_, _, _)
ListVariants(e, i, acc) ==
    IF i > Len(e.variants) THEN acc
    ELSE ListVariants(e, i + 1, Append(acc, <<e.variants[i].name_cp>> \o Words(e.variants[i].summary_cp)))
RECURSIVE ListMembers(_, _, _)
ListMembers(e, m, acc) ==
    IF m > Len(e.members) THEN acc
    ELSE ListMembers(e, m + 1, IF e.members[m].hidden THEN acc ELSE acc \o ListLines(e.members[m].enum))
(* `help`: every command of every visible group exactly once with its summary *)
ListLines(id) ==
    LET e == EnumOf(id) IN
    IF e.kind = "group" THEN ListMembers(e, 1, <<>>) ELSE ListVariants(e, 1, <<>>)

RECURSIVE ArgLines(_, _, _, _)
ArgLines(v, k, pos, acc) ==
    IF k > Len(v.args) THEN acc
    ELSE LET a == v.args[k] IN
         ArgLines(v, k + 1, pos,
                  IF (a.kind = "pos") = pos
                  THEN Append(acc, Words(IF pos THEN a.usage_cp ELSE a.display_cp) \o Words(a.summary_cp))
                  ELSE acc)

RECURSIVE PosUsage(_, _, _)
PosUsage(v, k, acc) ==
    IF k > Len(v.args) THEN acc
    ELSE PosUsage(v, k + 1, IF v.args[k].kind = "pos" THEN Append(acc, v.args[k].usage_cp) ELSE acc)

HelpOptionWords == << <<45, 104, 44>>, <<45, 45, 104, 101, 108, 112>> >>   \* "-h," "--help"

(* help for variant v reached through parents `path` (a list of names) *)
VariantHelp(v, path) ==
    LET hasOpts == \E k \in 1..Len(v.args) : v.args[k].kind # "pos"
        usage == path \o <<v.name_cp>>
                 \o (IF hasOpts THEN << <<91, 79, 80, 84, 73, 79, 78, 83, 93>> >> ELSE <<>>)       \* [OPTIONS]
                 \o (IF v.sub # "" THEN <<CommandUsage(v.sub_optional)>> ELSE PosUsage(v, 1, <<>>))
    IN TextLines(v.description_cp)
       \o <<usage>>
       \o ArgLines(v, 1, TRUE, <<>>)
       \o ArgLines(v, 1, FALSE, <<>>)
       \o <<HelpOptionWords>>
       \o (IF v.sub # "" THEN ListLines(v.sub) ELSE <<>>)

UnknownHelp == << << <<0 - 1>> >> >>      \* sentinel: no such (visible) command
OpenHelp == << << <<0 - 2>> >> >>         \* sentinel: which command is meant is left open (OpenAbandoned:
                                           \* an option of a parent command named without its value)

RECURSIVE HelpEnum(_, _, _, _)
RECURSIVE HelpWalk(_, _, _, _, _)
(* find the sub-command the request is about: options of this command are  *)
(* skipped (with their values); an option this command does not declare     *)
(* (such as the help option itself) ends the search                         *)
HelpWalk(v, path, toks, i, s) ==
    IF s.open THEN OpenHelp
    ELSE IF i > Len(toks) \/ s.stop THEN VariantHelp(v, path)
    ELSE LET t == toks[i] IN
      IF ~s.vo /\ Len(t) > 1 /\ t[1] = DASH THEN
          IF t[2] = DASH THEN
              IF Len(t) = 2 THEN HelpWalk(v, path, toks, i + 1, [s EXCEPT !.vo = TRUE])
              ELSE LET hits == {k \in 1..Len(v.args) : v.args[k].kind # "pos" /\ v.args[k].has_long /\ v.args[k].long_cp = SubSeq(t, 3, Len(t))} IN
                   IF hits = {} THEN VariantHelp(v, path)
                   ELSE LET k == CHOOSE k \in hits : \A j \in hits : k <= j IN
                        HelpWalk(v, path, toks, i + 1, [s EXCEPT !.mode = IF v.args[k].kind = "flag" THEN 0 ELSE k, !.open = s.mode # 0])
          ELSE \* cluster: processed letter by letter
              LET RECURSIVE Cl(_, _)
                  Cl(j, st) ==
                      IF j > Len(t) \/ st.stop THEN st
                      ELSE LET hits == {k \in 1..Len(v.args) : v.args[k].kind # "pos" /\ v.args[k].short_cp = t[j]} IN
                           IF hits = {} THEN [st EXCEPT !.stop = TRUE]
                           ELSE LET k == CHOOSE k \in hits : \A q \in hits : k <= q IN
                                Cl(j + 1, [st EXCEPT !.mode = IF v.args[k].kind = "flag" THEN 0 ELSE k, !.open = st.mode # 0])
              IN HelpWalk(v, path, toks, i + 1, Cl(2, s))
      ELSE IF s.mode # 0 THEN HelpWalk(v, path, toks, i + 1, [s EXCEPT !.mode = 0])
      ELSE HelpEnum(v.sub, path \o <<v.name_cp>>, t, SubSeq(toks, i + 1, Len(toks)))

RECURSIVE HelpGroup(_, _, _, _, _)
HelpGroup(e, m, path, name, toks) ==
    IF m > Len(e.members) THEN UnknownHelp
    ELSE IF e.members[m].hidden THEN HelpGroup(e, m + 1, path, name, toks)
    ELSE LET r == HelpEnum(e.members[m].enum, path, name, toks) IN
         IF r = UnknownHelp THEN HelpGroup(e, m + 1, path, name, toks) ELSE r

HelpEnum(id, path, name, toks) ==
    LET e == EnumOf(id) IN
    IF e.kind = "group" THEN HelpGroup(e, 1, path, name, toks)
    ELSE LET hits == {i \in 1..Len(e.variants) : e.variants[i].name_cp = name} IN
         IF hits = {} THEN UnknownHelp
         ELSE LET v == e.variants[CHOOSE i \in hits : \A j \in hits : i <= j] IN
              IF v.sub = "" THEN VariantHelp(v, path)
              ELSE HelpWalk(v, path, toks, 1, [mode |-> 0, vo |-> FALSE, stop |-> FALSE, open |-> FALSE])

-----------------------------------------------------------------------------
ErrorPrefix == <<101, 114, 114, 111, 114, 58, 32>>          \* "error: "

RECURSIVE Contains(_, _, _)
Contains(hay, needle, i) ==
    IF needle = <<>> THEN TRUE
    ELSE IF i + Len(needle) - 1 > Len(hay) THEN FALSE
    ELSE IF SubSeq(hay, i, i + Len(needle) - 1) = needle THEN TRUE ELSE Contains(hay, needle, i + 1)

(* a single `error:` line *)
IsErrorLine(out, payload) ==
    /\ Len(out) >= Len(ErrorPrefix) + 2
    /\ SubSeq(out, 1, Len(ErrorPrefix)) = ErrorPrefix
    /\ SubSeq(out, Len(out) - 1, Len(out)) = <<13, 10>>
    /\ \A i \in 1..(Len(out) - 2) : out[i] # 10 /\ out[i] # 13
    /\ Contains(out, payload, 1)

ParseOk(r, toks) ==
    LET exp == Parse(r.conv, r.decl, toks) IN
    IF exp.open THEN TRUE       \* behaviour left open by the property (see DESIGN.md section 5)
    ELSE IF exp.ok THEN
        /\ Chk(<<"C09 handler not called exactly once with the declared value", r.calls, Tree(exp)>>,
               r.calls = <<Tree(exp)>>)
        /\ Chk(<<"C09 output for an accepted line", r.out>>, r.errs = <<>> /\ r.out = <<>> /\ r.res = "ok")
    ELSE
        /\ Chk(<<"C09 handler called for a line that does not fit the declaration", r.calls, exp.kind, exp.payload>>,
               r.calls = <<>>)
        /\ r.via = "parse" =>
              Chk(<<"C09 reported error is not the first offending item", r.errs, exp.kind, exp.payload, exp.ty>>,
                  /\ Len(r.errs) = 1
                  /\ r.errs[1].kind = exp.kind
                  /\ r.errs[1].payload = EncodeAll(exp.payload)
                  /\ r.errs[1].ty = exp.ty)
        /\ Chk(<<"C09 not a single error: line naming the offending item", r.out, exp.kind, exp.payload>>,
               IsErrorLine(r.out, EncodeAll(exp.payload)) /\ r.res = "ok")

HelpOk(r, toks, kind) ==
    /\ Chk(<<"C12 help request reached the handler / the parser", r.calls, r.errs>>, r.calls = <<>> /\ r.errs = <<>>)
    /\ LET got == Content(TextLines(Decode(r.out)), 1, <<>>)
           want == IF kind = "all" THEN ListLines(r.decl)
                   ELSE IF toks[1] = HelpWord THEN HelpEnum(r.decl, <<>>, toks[2], SubSeq(toks, 3, Len(toks)))
                   ELSE HelpEnum(r.decl, <<>>, toks[1], Tail(toks))
       IN IF want = OpenHelp THEN TRUE
          ELSE IF want = UnknownHelp
          THEN Chk(<<"C12 unknown or hidden command not answered by `error: unknown command`", r.out>>,
                   IsErrorLine(r.out, <<117, 110, 107, 110, 111, 119, 110, 32, 99, 111, 109, 109, 97, 110, 100>>))
          ELSE Chk(<<"C12 help text does not say what the declaration says", got, want>>,
                   /\ Len(got) = Len(want)
                   /\ \A i \in 1..Len(want) :
                         IF want[i] = HelpOptionWords THEN SubSeq(got[i], 1, 2) = HelpOptionWords
                         ELSE got[i] = want[i])

RecOk(r) ==
    LET toks == DecodeList(r.toks) IN
    /\ Chk(<<"line was not typed as intended (harness)", r.toks>>, r.typed_ok /\ r.framed)
    /\ IF toks = <<>> THEN Chk(<<"empty line", r>>, r.calls = <<>> /\ r.errs = <<>> /\ r.out = <<>>)
       ELSE LET kind == HelpKind(toks[1], Classify(Tail(toks))) IN
            IF kind = "no" THEN (Focus \in {"C09", "ALL"} => ParseOk(r, toks))
            ELSE IF kind = "open" THEN TRUE
            ELSE (Focus \in {"C12", "ALL"} => HelpOk(r, toks, kind))

Init == l = 0
Next == l < Len(Rec) /\ RecOk(Rec[l + 1]) /\ l' = l + 1
Spec == Init /\ [][Next]_l

Accepted ==
    LET n == TLCGet("stats").diameter - 1 IN
    IF n = Len(Rec) THEN PrintT("ACCEPTED|" \o ToString(n))
    ELSE PrintT("REJECTED-AT|" \o ToString(n + 1)) /\ FALSE
=============================================================================
