------------------------------ MODULE Decoder ------------------------------
(***************************************************************************)
(* Input decoder: byte stream -> key events (input.rs + utf8.rs).          *)
(*                                                                         *)
(* Decoder state (a record):                                               *)
(*   csi     : inside an `ESC [` sequence, waiting for the final byte      *)
(*   esc     : the previous byte was ESC (outside a CSI sequence)          *)
(*   pair    : "cr" / "lf" when the previous byte was that terminator and  *)
(*             produced an Enter, so that its partner would be absorbed;   *)
(*             "none" otherwise                                            *)
(*   pending : octets of an unfinished UTF-8 sequence                      *)
(*                                                                         *)
(* Feed(d, b) is the SET of admissible outcomes [d |-> d', ev |-> key];    *)
(* it is a singleton wherever property C04 determines the behaviour and    *)
(* has several elements exactly at the named Open* choices.                *)
(***************************************************************************)
EXTENDS Utf8

Key(k, cp) == [k |-> k, cp |-> cp]
NoKey == Key("none", 0)
KeyKinds == {"none", "char", "enter", "tab", "bs", "up", "down", "left", "right"}

DecInit == [csi |-> FALSE, esc |-> FALSE, pair |-> "none", pending |-> <<>>]

Out(d, ev) == [d |-> d, ev |-> ev]

(* OpenCtl: a control byte or escape sequence arriving inside an unfinished *)
(* UTF-8 sequence keeps or drops the pending octets                         *)
PendingAfterCtl(p) == {p, <<>>}

Ground(d, pend) == [csi |-> FALSE, esc |-> FALSE, pair |-> "none", pending |-> pend]

(* a byte outside any CSI sequence *)
FeedGround(d, b) ==
    IF d.esc /\ b = 91 THEN                        \* ESC [ : CSI starts
        {Out([csi |-> TRUE, esc |-> FALSE, pair |-> "none", pending |-> p], NoKey)
            : p \in PendingAfterCtl(d.pending)}
    ELSE IF b = 27 THEN                            \* ESC (alone: ignored)
        {Out([csi |-> FALSE, esc |-> TRUE, pair |-> "none", pending |-> p], NoKey)
            : p \in PendingAfterCtl(d.pending)}
    ELSE IF b = 13 THEN                            \* CR
        IF d.pair = "lf"
        THEN {Out(Ground(d, p), NoKey) : p \in PendingAfterCtl(d.pending)}
        ELSE {Out([csi |-> FALSE, esc |-> FALSE, pair |-> "cr", pending |-> p], Key("enter", 0))
                : p \in PendingAfterCtl(d.pending)}
    ELSE IF b = 10 THEN                            \* LF
        IF d.pair = "cr"
        THEN {Out(Ground(d, p), NoKey) : p \in PendingAfterCtl(d.pending)}
        ELSE {Out([csi |-> FALSE, esc |-> FALSE, pair |-> "lf", pending |-> p], Key("enter", 0))
                : p \in PendingAfterCtl(d.pending)}
    ELSE IF b = 8 THEN
        {Out(Ground(d, p), Key("bs", 0)) : p \in PendingAfterCtl(d.pending)}
    ELSE IF b = 9 THEN
        {Out(Ground(d, p), Key("tab", 0)) : p \in PendingAfterCtl(d.pending)}
    ELSE IF b < 32 THEN                            \* every other C0 control: ignored
        {Out(Ground(d, p), NoKey) : p \in PendingAfterCtl(d.pending)}
    ELSE IF b = 127 THEN                           \* OpenDel
        {Out(Ground(d, <<>>), Key("char", 127)),
         Out(Ground(d, <<>>), Key("bs", 0))}
        \cup {Out(Ground(d, p), NoKey) : p \in PendingAfterCtl(d.pending)}
    ELSE
        {Out(Ground(d, r.pending),
             IF r.emit = <<>> THEN NoKey ELSE Key("char", r.emit[1]))
            : r \in DecStep(d.pending, b)}

CsiFinal(b) == IF b = 65 THEN Key("up", 0)
               ELSE IF b = 66 THEN Key("down", 0)
               ELSE IF b = 67 THEN Key("right", 0)
               ELSE IF b = 68 THEN Key("left", 0)
               ELSE NoKey

(* a byte inside a CSI sequence *)
FeedCsi(d, b) ==
    IF b >= 64 /\ b <= 126 THEN                    \* final byte
        {Out(Ground(d, d.pending), CsiFinal(b))}
    ELSE IF b >= 32 /\ b <= 63 THEN                \* parameter / intermediate byte
        {Out(d, NoKey)}
    ELSE                                           \* OpenCsiGarbage: not a CSI byte at all
        {Out(d, NoKey)} \cup FeedGround(Ground(d, d.pending), b)

Feed(d, b) == IF d.csi THEN FeedCsi(d, b) ELSE FeedGround(d, b)

(* state after a complete key unit: nothing of it is remembered except a   *)
(* possibly open terminator pair                                           *)
AtRest(d) == ~d.csi /\ ~d.esc /\ d.pending = <<>>

=============================================================================
