----------------------------- MODULE MC_Utf8 -----------------------------
(* Bounded instances for Utf8:                                            *)
(*  SpecScalars: a counter over all scalar values; invariants tie Encode,  *)
(*    Decode, WellFormed and the streaming decoder together.               *)
(*  SpecBytes: all byte strings of length <= 4 over boundary              *)
(*    representatives of every byte class; WellFormedOne <=> is an         *)
(*    encoding of a scalar.                                                *)
EXTENDS Utf8, TLC, FiniteSets

VARIABLES cp, bs

-----------------------------------------------------------------------------
NextScalar(c) == IF c = 55295 THEN 57344 ELSE c + 1

InitS == cp = 0 /\ bs = <<>>
NextS == cp < 1114111 /\ cp' = NextScalar(cp) /\ UNCHANGED bs
SpecScalars == InitS /\ [][NextS]_<<cp, bs>>

RECURSIVE Stream(_, _, _, _)
(* feed octets one by one to the streaming decoder (deterministic on       *)
(* well-formed input); returns the sequence of emitted scalars             *)
Stream(octets, i, pending, out) ==
    IF i > Len(octets) THEN [out |-> out, pending |-> pending]
    ELSE LET r == CHOOSE r \in DecStep(pending, octets[i]) : TRUE
         IN Stream(octets, i + 1, r.pending, out \o r.emit)

ScalarInv ==
    LET e == Encode(cp) IN
    /\ IsScalar(cp)
    /\ Len(e) = EncLen(cp)
    /\ WellFormedOne(e)
    /\ Decode(e) = <<cp>>
    /\ ValueAt(e, 1) = cp
    /\ \A i \in 1..Len(e) : Cardinality(DecStep(<<>>, e[i])) = 1
    /\ Stream(e, 1, <<>>, <<>>) = [out |-> <<cp>>, pending |-> <<>>]
    \* a pending prefix of another character is dropped, this one still accepted
    /\ Stream(<<226, 130>> \o e, 1, <<>>, <<>>).out = <<cp>>
    /\ Bytes(<<cp>>) = Len(e)

-----------------------------------------------------------------------------
(* boundary representatives: both ends of every class of Table 3-7 *)
Reps == {0, 31, 32, 126, 127, 128, 143, 144, 159, 160, 191, 192, 193, 194, 223,
         224, 225, 236, 237, 238, 239, 240, 241, 243, 244, 245, 247, 248, 255}

InitB == bs = <<>> /\ cp = 0
NextB == Len(bs) < 4 /\ \E b \in Reps : bs' = Append(bs, b) /\ UNCHANGED cp
SpecBytes == InitB /\ [][NextB]_<<cp, bs>>

BytesInv ==
    /\ (bs # <<>> /\ WellFormedOne(bs)) =>
          /\ IsScalar(ValueAt(bs, 1))
          /\ Encode(ValueAt(bs, 1)) = bs
          /\ Decode(bs) = <<ValueAt(bs, 1)>>
    \* strict decoding accepts exactly concatenations of encoded scalars
    /\ Decode(bs) # Bad => (EncodeAll(Decode(bs)) = bs /\ \A i \in 1..Len(Decode(bs)) : IsScalar(Decode(bs)[i]))
    \* the streaming decoder never emits a non-scalar, and what it emits
    \* re-encodes to a subsequence of what it was fed (checked as: no more octets)
    /\ \A b \in Reps : \A r \in DecStep(IF bs # <<>> /\ Len(bs) < 4 /\ LeadLen(bs[1]) > Len(bs) /\ (Len(bs) = 1 \/ (WellFormedAt(bs \o <<128, 128, 128>>, 1))) THEN bs ELSE <<>>, b) :
          /\ r.emit # <<>> => IsScalar(r.emit[1])
          /\ r.pending # <<>> => LeadLen(r.pending[1]) > Len(r.pending)
=============================================================================
