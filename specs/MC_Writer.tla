------------------------------ MODULE MC_Writer ------------------------------
(* The Writer as implemented (writer.rs): `dirty` and `last_bytes` updated    *)
(* call by call by write_str / writeln_str.  For every sequence of <= MaxCalls *)
(* calls over texts made of {x, LF, CR, empty pieces}: the bytes sent equal     *)
(* Conv of the concatenated text, and is_dirty() <=> NeedsBreak(text), so that  *)
(* exactly one line break is added iff the output is non-empty and does not     *)
(* end with one - whatever the chunking.                                        *)
EXTENDS Cli, TLC

CONSTANT MaxCalls

VARIABLES w, chunks
wvars == <<w, chunks>>

Pieces == {<<>>, <<120>>, <<10>>, <<13, 10>>, <<120, 10>>, <<10, 120>>, <<120, 13>>, <<13>>, <<120, 10, 10, 121>>}

WInit == [dirty |-> FALSE, last |-> <<0, 0>>, sent |-> <<>>]

RECURSIVE WStr(_, _)
(* Writer::write_str: split at LF; each line followed by CR LF; the rest raw *)
WStr(s, t) ==
    IF t = <<>> THEN s
    ELSE LET lf == {i \in 1..Len(t) : t[i] = 10} IN
         IF lf # {} THEN
             LET p == CHOOSE i \in lf : \A j \in lf : i <= j IN
             WStr([dirty |-> FALSE, last |-> <<0, 0>>, sent |-> s.sent \o EncodeAll(SubSeq(t, 1, p - 1)) \o CRLF],
                  SubSeq(t, p + 1, Len(t)))
         ELSE LET b == EncodeAll(t) IN
              [dirty |-> TRUE,
               last |-> IF Len(b) > 1 THEN <<b[Len(b) - 1], b[Len(b)]>> ELSE <<s.last[2], b[Len(b)]>>,
               sent |-> s.sent \o b]

(* Writer::writeln_str (repaired F6) *)
WLn(s, t) == LET s2 == WStr(s, t) IN [dirty |-> FALSE, last |-> <<0, 0>>, sent |-> s2.sent \o CRLF]

IsDirty(s) == s.dirty /\ (s.last[1] # 13 \/ s.last[2] # 10)

Init == w = WInit /\ chunks = <<>>
Next == /\ Len(chunks) < MaxCalls
        /\ \E t \in Pieces : \E m \in {"w", "wl"} :
              /\ chunks' = Append(chunks, [m |-> m, t |-> t])
              /\ w' = IF m = "w" THEN WStr(w, t) ELSE WLn(w, t)
Spec == Init /\ [][Next]_wvars

Inv == LET text == ChunkText(chunks) IN
       /\ w.sent = Conv(text)
       /\ IsDirty(w) <=> NeedsBreak(text)
=============================================================================
