------------------------------ MODULE MC_Args ------------------------------
(* Spec-level laws of Args over the token alphabet of C08: every token list *)
(* of <= MaxToks tokens: nothing lost or invented (Rejoin), `--` sticks,    *)
(* one short option per scalar.                                             *)
EXTENDS Args, TLC

CONSTANTS MaxToks

TokPool == {<<45, 45>>, <<45, 45, 97>>, <<45, 45, 233>>, <<45, 45, 45, 120>>, <<45>>, <<>>,
            <<45, 97>>, <<45, 97, 233>>, <<45, 233, 20013, 128512>>, <<118>>, <<97, 32, 98>>, <<45, 104>>}

VARIABLES ts
Init == ts = <<>>
Next == Len(ts) < MaxToks /\ \E t \in TokPool : ts' = Append(ts, t)
Spec == Init /\ [][Next]_ts

RECURSIVE FirstDD(_, _)
FirstDD(l, i) == IF i > Len(l) THEN 0 ELSE IF l[i] = <<45, 45>> THEN i ELSE FirstDD(l, i + 1)

Inv ==
    LET items == Classify(ts)
        dd == FirstDD(ts, 1)
    IN
    /\ RejoinOk(ts)
    \* after `--` everything is a value, verbatim
    /\ dd > 0 => \A k \in 1..(Len(ts) - dd) :
                    items[Len(items) - (Len(ts) - dd) + k] = Item("value", ts[dd + k])
    \* at most one `dd` item
    /\ \A i, j \in 1..Len(items) : (items[i].k = "dd" /\ items[j].k = "dd") => i = j
    \* short options carry exactly one scalar
    /\ \A i \in 1..Len(items) : items[i].k = "short" => Len(items[i].t) = 1
    \* `-` alone and the empty token are values
    /\ \A i \in 1..Len(ts) : (dd = 0 /\ (ts[i] = <<45>> \/ ts[i] = <<>>)) =>
            \E j \in 1..Len(items) : items[j] = Item("value", ts[i])
=============================================================================
