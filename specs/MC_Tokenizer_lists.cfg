SPECIFICATION SpecLists
CONSTANTS
  MaxToks = 3
  MaxLen = 2
  MaxLine = 0
INVARIANT RoundTrip
CHECK_DEADLOCK FALSE
