----------------------------- MODULE MC_Decoder -----------------------------
(* Two bounded instances of Decoder:                                       *)
(*  - graph: the closed state graph over boundary representatives of every *)
(*    byte class; every transition printed with a shortest path, replayed  *)
(*    on the real InputGenerator;                                          *)
(*  - units: the stream is a concatenation of key units (C04's grammar);   *)
(*    each unit must produce exactly its key, whatever preceded it, and    *)
(*    leave the decoder at rest.                                           *)
EXTENDS Decoder, TLC, Json, FiniteSets

VARIABLES d, path, last

ByteReps == {0, 7, 8, 9, 10, 13, 27, 31, 32, 47, 48, 63, 64, 65, 66, 67, 68, 69, 91, 97, 126, 127,
             128, 143, 144, 159, 160, 191, 192, 193, 194, 223, 224, 225, 236, 237, 238, 239,
             240, 241, 243, 244, 245, 247, 248, 255}

Init == d = DecInit /\ path = <<>> /\ last = "none"

NextGraph == \E b \in ByteReps : \E o \in Feed(d, b) :
                d' = o.d /\ path' = Append(path, b) /\ UNCHANGED last
SpecGraph == Init /\ [][NextGraph]_<<d, path, last>>

View == d
Emit == PrintT("T|" \o ToJson(path'))

(* invariants of every reachable decoder state *)
TypeInv ==
    /\ d.pair \in {"none", "cr", "lf"}
    /\ d.pending # <<>> => (LeadLen(d.pending[1]) > Len(d.pending) /\ Len(d.pending) >= 1)
    /\ d.csi => ~d.esc
    /\ d.pair # "none" => (~d.csi /\ ~d.esc)

-----------------------------------------------------------------------------
(* key units: name, bytes, expected key *)
U(n, bs, ev) == [n |-> n, bs |-> bs, ev |-> ev]
Units == {
    U("a", <<97>>, Key("char", 97)), U("~", <<126>>, Key("char", 126)),
    U("sp", <<32>>, Key("char", 32)), U("[", <<91>>, Key("char", 91)),
    U("u80", <<194, 128>>, Key("char", 128)), U("u7ff", <<223, 191>>, Key("char", 2047)),
    U("u800", <<224, 160, 128>>, Key("char", 2048)), U("ud7ff", <<237, 159, 191>>, Key("char", 55295)),
    U("ue000", <<238, 128, 128>>, Key("char", 57344)), U("uffff", <<239, 191, 191>>, Key("char", 65535)),
    U("u10000", <<240, 144, 128, 128>>, Key("char", 65536)),
    U("u10ffff", <<244, 143, 191, 191>>, Key("char", 1114111)),
    U("cr", <<13>>, Key("enter", 0)), U("lf", <<10>>, Key("enter", 0)),
    U("crlf", <<13, 10>>, Key("enter", 0)), U("lfcr", <<10, 13>>, Key("enter", 0)),
    U("bs", <<8>>, Key("bs", 0)), U("tab", <<9>>, Key("tab", 0)),
    U("up", <<27, 91, 65>>, Key("up", 0)), U("down", <<27, 91, 66>>, Key("down", 0)),
    U("right", <<27, 91, 67>>, Key("right", 0)), U("left", <<27, 91, 68>>, Key("left", 0)),
    U("up-params", <<27, 91, 49, 59, 53, 65>>, Key("up", 0)),
    U("left-inter", <<27, 91, 63, 32, 47, 68>>, Key("left", 0)),
    U("csi-tilde", <<27, 91, 51, 126>>, NoKey), U("csi-at", <<27, 91, 64>>, NoKey),
    U("csi-E", <<27, 91, 69>>, NoKey), U("csi-[", <<27, 91, 91>>, NoKey),
    U("csi-params-other", <<27, 91, 48, 57, 58, 59, 60, 61, 62, 63, 72>>, NoKey),
    U("esc", <<27>>, NoKey), U("escesc-up", <<27, 27, 91, 65>>, Key("up", 0)),
    U("nul", <<0>>, NoKey), U("bel", <<7>>, NoKey), U("us", <<31>>, NoKey),
    \* things that are not characters: dropped, and nothing of them is remembered
    U("stray", <<128>>, NoKey), U("bad-ff", <<255>>, NoKey),
    U("c0-80", <<192, 128>>, NoKey), U("e0-80-80", <<224, 128, 128>>, NoKey),
    U("ed-a0-80", <<237, 160, 128>>, NoKey), U("f0-80", <<240, 128, 128, 128>>, NoKey),
    U("f4-90", <<244, 144, 128, 128>>, NoKey), U("f5", <<245, 128, 128, 128>>, NoKey)
}
(* truncated sequences: emit nothing; the next unit is still decoded *)
Truncated == {U("t-c3", <<195>>, NoKey), U("t-e2", <<226>>, NoKey), U("t-e2-82", <<226, 130>>, NoKey),
              U("t-f0-9f-98", <<240, 159, 152>>, NoKey)}

(* greedy reading: a lone CR must not be followed by a unit starting with  *)
(* LF (that would be the pair), and vice versa                             *)
Allowed(prev, u) ==
    /\ prev = "cr" => u.bs[1] # 10
    /\ prev = "lf" => u.bs[1] # 13
    \* ESC [ is the start of a CSI sequence, not a lone ESC and a character
    /\ prev = "esc" => u.bs[1] # 91
    \* pending octets followed by continuation bytes might be completed by them
    \* (pending octets may survive control bytes: OpenCtl)
    /\ d.pending # <<>> => ~IsCont(u.bs[1])

RECURSIVE FeedAll(_, _, _)
(* all outcomes of feeding a byte string: set of [d, evs] *)
FeedAll(S, bs, i) ==
    IF i > Len(bs) THEN S
    ELSE FeedAll(UNION {{[d |-> o.d, evs |-> IF o.ev = NoKey THEN x.evs ELSE Append(x.evs, o.ev)]
                            : o \in Feed(x.d, bs[i])} : x \in S}, bs, i + 1)

NextUnits == \E u \in Units \cup Truncated :
    /\ Allowed(last, u)
    /\ LET outs == FeedAll({[d |-> d, evs |-> <<>>]}, u.bs, 1) IN
       /\ Assert(\A o \in outs : o.evs = IF u.ev = NoKey THEN <<>> ELSE <<u.ev>>,
                 <<"unit does not yield its key", last, u, outs>>)
       /\ Assert(\A o \in outs : (u \notin Truncated /\ u.n # "esc") =>
                                      (~o.d.csi /\ ~o.d.esc /\ (d.pending = <<>> => o.d.pending = <<>>)),
                 <<"decoder not at rest after unit", u, outs>>)
       /\ \E o \in outs : d' = o.d
    /\ last' = u.n
    /\ path' = <<>>
SpecUnits == Init /\ [][NextUnits]_<<d, path, last>>
ViewUnits == <<d, last>>
=============================================================================
