----------------------------- MODULE Tokenizer -----------------------------
(***************************************************************************)
(* Splitting a line into tokens (token.rs), over scalar values.            *)
(* SP = 32, QUOTE = 34, BSL = 92.                                          *)
(***************************************************************************)
EXTENDS Utf8

SP == 32
QUOTE == 34
BSL == 92

AppendLast(ts, c) == [ts EXCEPT ![Len(ts)] = Append(@, c)]

RECURSIVE Scan(_, _, _, _, _)
(* modes: "space", "normal", "quoted", "escape".                           *)
(* keepBs (OpenEscape): a backslash before a character other than quote or *)
(* backslash is kept / dropped; the documented cases are the same in both. *)
Scan(line, i, mode, ts, keepBs) ==
    IF i > Len(line) THEN ts
    ELSE LET c == line[i] IN
      IF mode = "space" THEN
          IF c = QUOTE THEN Scan(line, i + 1, "quoted", Append(ts, <<>>), keepBs)
          ELSE IF c = SP \/ c = 0 THEN Scan(line, i + 1, "space", ts, keepBs)
          ELSE Scan(line, i + 1, "normal", Append(ts, <<c>>), keepBs)
      ELSE IF mode = "normal" THEN
          IF c = SP \/ c = 0 THEN Scan(line, i + 1, "space", ts, keepBs)
          ELSE Scan(line, i + 1, "normal", AppendLast(ts, c), keepBs)
      ELSE IF mode = "quoted" THEN
          IF c = QUOTE \/ c = 0 THEN Scan(line, i + 1, "space", ts, keepBs)
          ELSE IF c = BSL THEN Scan(line, i + 1, "escape", ts, keepBs)
          ELSE Scan(line, i + 1, "quoted", AppendLast(ts, c), keepBs)
      ELSE \* escape
          IF c = QUOTE \/ c = BSL \/ ~keepBs
          THEN Scan(line, i + 1, "quoted", AppendLast(ts, c), keepBs)
          ELSE Scan(line, i + 1, "quoted", AppendLast(AppendLast(ts, BSL), c), keepBs)

(* what the code does *)
Tokenize(line) == Scan(line, 1, "space", <<>>, FALSE)
(* every admissible result *)
TokenizeSet(line) == {Scan(line, 1, "space", <<>>, FALSE), Scan(line, 1, "space", <<>>, TRUE)}

-----------------------------------------------------------------------------
(* Quoted rendering of a list of strings: each in double quotes with quote *)
(* and backslash escaped, joined by one space                              *)
RECURSIVE EscapeFrom(_, _, _)
EscapeFrom(t, i, acc) ==
    IF i > Len(t) THEN acc
    ELSE EscapeFrom(t, i + 1,
            IF t[i] = QUOTE \/ t[i] = BSL THEN acc \o <<BSL, t[i]>> ELSE Append(acc, t[i]))
Quote(t) == <<QUOTE>> \o EscapeFrom(t, 1, <<>>) \o <<QUOTE>>

RECURSIVE RenderFrom(_, _, _)
RenderFrom(ts, i, acc) ==
    IF i > Len(ts) THEN acc
    ELSE RenderFrom(ts, i + 1, (IF i = 1 THEN acc ELSE Append(acc, SP)) \o Quote(ts[i]))
Render(ts) == RenderFrom(ts, 1, <<>>)

=============================================================================
