------------------------------ MODULE Editor ------------------------------
(***************************************************************************)
(* The ideal line editor over Unicode scalar values (editor.rs seen from   *)
(* outside).  State: [line : Seq(scalar), cur : 0..Len(line)].             *)
(* cap = size of the command buffer in bytes.                              *)
(***************************************************************************)
EXTENDS Utf8

Ed(line, cur) == [line |-> line, cur |-> cur]
EdInit == Ed(<<>>, 0)

EdOk(e, cap) == e.cur >= 0 /\ e.cur <= Len(e.line) /\ Bytes(e.line) <= cap

Fits(e, cp, cap) == Bytes(e.line) + EncLen(cp) <= cap

(* a character is accepted iff the line still fits the buffer; a rejected  *)
(* character changes nothing                                               *)
Insert(e, cp, cap) ==
    IF Fits(e, cp, cap)
    THEN Ed(SubSeq(e.line, 1, e.cur) \o <<cp>> \o SubSeq(e.line, e.cur + 1, Len(e.line)),
            e.cur + 1)
    ELSE e

Backspace(e) ==
    IF e.cur = 0 THEN e
    ELSE Ed(SubSeq(e.line, 1, e.cur - 1) \o SubSeq(e.line, e.cur + 1, Len(e.line)),
            e.cur - 1)

Left(e) == IF e.cur = 0 THEN e ELSE Ed(e.line, e.cur - 1)
Right(e) == IF e.cur = Len(e.line) THEN e ELSE Ed(e.line, e.cur + 1)

(* recall and completion replace the line as a whole, cursor at the end *)
Replace(l) == Ed(l, Len(l))
Clear == Ed(<<>>, 0)

=============================================================================
