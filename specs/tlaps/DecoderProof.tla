----------------------------- MODULE DecoderProof -----------------------------
(* Apalache: the structural invariant of the input decoder is INDUCTIVE over  *)
(* ALL 256 byte values (TLC closes the graph over boundary representatives    *)
(* only).  The pending UTF-8 octets are abstracted to how many have been      *)
(* collected (have) and how many the lead byte announced (need); the value    *)
(* is irrelevant to the control structure.  Mirrors Decoder!Feed, open        *)
(* choices included.                                                          *)
EXTENDS Integers, TLAPS

VARIABLES
    csi,
    esc,
    pair,
    have,
    need,
    key

LeadLen(b) == IF b < 128 THEN 1 ELSE IF b >= 194 /\ b <= 223 THEN 2
              ELSE IF b >= 224 /\ b <= 239 THEN 3 ELSE IF b >= 240 /\ b <= 244 THEN 4 ELSE 0

IndInv ==
    /\ pair \in {"none", "cr", "lf"}
    /\ key \in {"none", "char", "enter", "tab", "bs", "up", "down", "left", "right"}
    /\ have \in 0..3 /\ need \in 0..4
    /\ (have = 0) <=> (need = 0)
    /\ have > 0 => have < need
    /\ csi => ~esc
    /\ pair # "none" => (~csi /\ ~esc)
    \* a terminator that produced an Enter leaves an open pair, and only that does
    /\ pair # "none" => key = "enter"

Init == csi = FALSE /\ esc = FALSE /\ pair = "none" /\ have = 0 /\ need = 0 /\ key = "none"
IndInit ==
    /\ csi \in BOOLEAN /\ esc \in BOOLEAN /\ pair \in {"none", "cr", "lf"}
    /\ have \in 0..3 /\ need \in 0..4
    /\ key \in {"none", "char", "enter", "tab", "bs", "up", "down", "left", "right"}
    /\ IndInv

KeepOrDrop == \/ UNCHANGED <<have, need>>
              \/ (have' = 0 /\ need' = 0)

Ground(b) ==
    IF esc /\ b = 91 THEN csi' = TRUE /\ esc' = FALSE /\ pair' = "none" /\ key' = "none" /\ KeepOrDrop
    ELSE IF b = 27 THEN csi' = FALSE /\ esc' = TRUE /\ pair' = "none" /\ key' = "none" /\ KeepOrDrop
    ELSE IF b = 13 THEN
        /\ csi' = FALSE /\ esc' = FALSE /\ KeepOrDrop
        /\ IF pair = "lf" THEN pair' = "none" /\ key' = "none" ELSE pair' = "cr" /\ key' = "enter"
    ELSE IF b = 10 THEN
        /\ csi' = FALSE /\ esc' = FALSE /\ KeepOrDrop
        /\ IF pair = "cr" THEN pair' = "none" /\ key' = "none" ELSE pair' = "lf" /\ key' = "enter"
    ELSE IF b < 32 THEN
        /\ csi' = FALSE /\ esc' = FALSE /\ pair' = "none" /\ KeepOrDrop
        /\ key' = IF b = 8 THEN "bs" ELSE IF b = 9 THEN "tab" ELSE "none"
    ELSE IF b = 127 THEN
        /\ csi' = FALSE /\ esc' = FALSE /\ pair' = "none"
        /\ \/ (key' \in {"char", "bs"} /\ have' = 0 /\ need' = 0)
           \/ (key' = "none" /\ KeepOrDrop)
    ELSE
        /\ csi' = FALSE /\ esc' = FALSE /\ pair' = "none"
        /\ IF b < 128 THEN have' = 0 /\ need' = 0 /\ key' = "char"
           ELSE IF LeadLen(b) >= 2 THEN have' = 1 /\ need' = LeadLen(b) /\ key' = "none"
           ELSE IF b >= 128 /\ b <= 191 /\ have > 0 THEN
               \* a continuation byte: accepted (maybe completing the character) or out of range
               \/ (have + 1 = need /\ have' = 0 /\ need' = 0 /\ key' = "char")
               \/ (have + 1 < need /\ have' = have + 1 /\ need' = need /\ key' = "none")
               \/ (have = 1 /\ have' = 0 /\ need' = 0 /\ key' = "none")
           ELSE have' = 0 /\ need' = 0 /\ key' = "none"

Csi(b) ==
    IF b >= 64 /\ b <= 126 THEN
        /\ csi' = FALSE /\ esc' = FALSE /\ pair' = "none" /\ UNCHANGED <<have, need>>
        /\ key' = IF b = 65 THEN "up" ELSE IF b = 66 THEN "down" ELSE IF b = 67 THEN "right" ELSE IF b = 68 THEN "left" ELSE "none"
    ELSE IF b >= 32 /\ b <= 63 THEN UNCHANGED <<csi, esc, pair, have, need>> /\ key' = "none"
    ELSE \/ (UNCHANGED <<csi, esc, pair, have, need>> /\ key' = "none")
         \/ Ground(b)

Next == \E b \in 0..255 : IF csi THEN Csi(b) ELSE Ground(b)

vars == <<csi, esc, pair, have, need, key>>

THEOREM InitOk == Init => IndInv
  BY DEF Init, IndInv

THEOREM Inductive == IndInv /\ [Next]_vars => IndInv'
<1> SUFFICES ASSUME IndInv, [Next]_vars PROVE IndInv'
  OBVIOUS
<1>1. CASE UNCHANGED vars
  BY <1>1 DEF IndInv, vars
<1>2. CASE Next
  <2> PICK b \in 0..255 : IF csi THEN Csi(b) ELSE Ground(b)
    BY <1>2 DEF Next
  <2>1. CASE csi
    <3> Csi(b) BY <2>1
    <3>1. CASE b >= 64 /\ b <= 126
      BY <3>1 DEF IndInv, Csi
    <3>2. CASE ~(b >= 64 /\ b <= 126) /\ b >= 32 /\ b <= 63
      BY <3>2, <2>1 DEF IndInv, Csi
    <3>3. CASE ~(b >= 64 /\ b <= 126) /\ ~(b >= 32 /\ b <= 63)
      <4>1. CASE UNCHANGED <<csi, esc, pair, have, need>> /\ key' = "none"
        BY <4>1, <2>1 DEF IndInv
      <4>2. CASE Ground(b)
        <5>1. b < 32 \/ b >= 127
          BY <3>3
        <5>2. CASE esc /\ b = 91
          BY <5>1, <5>2
        <5>3. CASE ~(esc /\ b = 91) /\ b = 27
          BY <4>2, <5>3 DEF IndInv, Ground, KeepOrDrop
        <5>4. CASE ~(esc /\ b = 91) /\ b = 13
          BY <4>2, <5>4 DEF IndInv, Ground, KeepOrDrop
        <5>5. CASE ~(esc /\ b = 91) /\ b = 10
          BY <4>2, <5>5 DEF IndInv, Ground, KeepOrDrop
        <5>6. CASE ~(esc /\ b = 91) /\ b # 27 /\ b # 13 /\ b # 10 /\ b < 32
          BY <4>2, <5>6 DEF IndInv, Ground, KeepOrDrop
        <5>7. CASE ~(esc /\ b = 91) /\ b = 127
          BY <4>2, <5>7 DEF IndInv, Ground, KeepOrDrop
        <5>8. CASE ~(esc /\ b = 91) /\ b > 127
          <6>1. CASE LeadLen(b) >= 2
            <7>1. LeadLen(b) \in 2..4 BY <6>1 DEF LeadLen
            <7> QED BY <4>2, <5>8, <6>1, <7>1 DEF IndInv, Ground, KeepOrDrop
          <6>2. CASE ~(LeadLen(b) >= 2) /\ b <= 191 /\ have > 0
            <7>1. /\ csi' = FALSE /\ esc' = FALSE /\ pair' = "none"
                  /\ \/ (have + 1 = need /\ have' = 0 /\ need' = 0 /\ key' = "char")
                     \/ (have + 1 < need /\ have' = have + 1 /\ need' = need /\ key' = "none")
                     \/ (have = 1 /\ have' = 0 /\ need' = 0 /\ key' = "none")
              BY <4>2, <5>8, <6>2 DEF Ground
            <7> QED BY <7>1 DEF IndInv
          <6>3. CASE ~(LeadLen(b) >= 2) /\ ~(b <= 191 /\ have > 0)
            BY <4>2, <5>8, <6>3 DEF IndInv, Ground, KeepOrDrop
          <6> QED BY <6>1, <6>2, <6>3
        <5> QED BY <5>1, <5>2, <5>3, <5>4, <5>5, <5>6, <5>7, <5>8
      <4> QED BY <3>3, <4>1, <4>2 DEF Csi
    <3> QED BY <3>1, <3>2, <3>3
  <2>2. CASE ~csi
    <3> Ground(b) BY <2>2
    <3>1. CASE esc /\ b = 91
      BY <3>1 DEF IndInv, Ground, KeepOrDrop
    <3>2. CASE ~(esc /\ b = 91) /\ b = 27
      BY <3>2 DEF IndInv, Ground, KeepOrDrop
    <3>3. CASE ~(esc /\ b = 91) /\ b = 13
      BY <3>3 DEF IndInv, Ground, KeepOrDrop
    <3>4. CASE ~(esc /\ b = 91) /\ b = 10
      BY <3>4 DEF IndInv, Ground, KeepOrDrop
    <3>5. CASE ~(esc /\ b = 91) /\ b # 27 /\ b # 13 /\ b # 10 /\ b < 32
      BY <3>5 DEF IndInv, Ground, KeepOrDrop
    <3>6. CASE ~(esc /\ b = 91) /\ b = 127
      BY <3>6 DEF IndInv, Ground, KeepOrDrop
    <3>7. CASE ~(esc /\ b = 91) /\ b >= 32 /\ b < 127
      BY <3>7 DEF IndInv, Ground, KeepOrDrop, LeadLen
    <3>8. CASE ~(esc /\ b = 91) /\ b > 127
      <4>1. CASE LeadLen(b) >= 2
        <5>1. LeadLen(b) \in 2..4 BY <4>1 DEF LeadLen
        <5> QED BY <3>8, <4>1, <5>1 DEF IndInv, Ground, KeepOrDrop
      <4>2. CASE ~(LeadLen(b) >= 2) /\ b <= 191 /\ have > 0
        <5>1. /\ csi' = FALSE /\ esc' = FALSE /\ pair' = "none"
                  /\ \/ (have + 1 = need /\ have' = 0 /\ need' = 0 /\ key' = "char")
                     \/ (have + 1 < need /\ have' = have + 1 /\ need' = need /\ key' = "none")
                     \/ (have = 1 /\ have' = 0 /\ need' = 0 /\ key' = "none")
          BY <3>8, <4>2 DEF Ground
        <5> QED BY <5>1 DEF IndInv
      <4>3. CASE ~(LeadLen(b) >= 2) /\ ~(b <= 191 /\ have > 0)
        BY <3>8, <4>3 DEF IndInv, Ground, KeepOrDrop
      <4> QED BY <4>1, <4>2, <4>3
    <3> QED BY <3>1, <3>2, <3>3, <3>4, <3>5, <3>6, <3>7, <3>8
  <2> QED BY <2>1, <2>2
<1> QED BY <1>1, <1>2 DEF vars
=============================================================================
