SPECIFICATION Spec
CONSTANTS
  HCap = 6
  MaxSubs = 0
VIEW View
ACTION_CONSTRAINT Emit
INVARIANT Inv
PROPERTY NavProp
CHECK_DEADLOCK FALSE
