#!/usr/bin/env python3
"""Catalogue of command declarations ("programs") for C09 / C11 / C12.

One description is the source of both
  * /verif/gen/catalogue.json  - read by the TLA+ specification (Derive.tla) and by the checks,
  * /verif/harness/src/gen_cmds.rs - Rust source using the repository's real derive macros.

What the specification is told about a declaration is what the DECLARATION says (variant and
field names, attributes, doc comments); every derived fact (kebab-case names, usage names,
summaries) is computed here by the documented rules, independently of the macros' code.

usage: catalogue.py [--seed N --extra K]   (extra = number of seed-dependent random enums)
"""
import json
import os
import random
import re
import sys

ROOT = os.path.dirname(os.path.dirname(os.path.abspath(__file__)))

INT_TYPES = ["u8", "i8", "u16", "i16", "u32", "i32", "u64", "i64", "u128", "i128", "usize", "isize"]
TYPES = INT_TYPES + ["f32", "f64", "char", "bool", "str"]


def kebab(ident):
    """CamelCase / snake_case identifier -> kebab-case (the catalogue only uses identifiers made
    of capitalised words of letters, where every reasonable definition agrees)."""
    if "_" in ident:
        return ident.replace("_", "-")
    return re.sub(r"(?<!^)(?=[A-Z])", "-", ident).lower()


def cps(s):
    return [ord(c) for c in s]


# ---------------------------------------------------------------------------------------
# doc comments: clap's rule as described in DESIGN.md (paragraphs, summary = first paragraph
# without its final period, description = all paragraphs joined by blank lines)

def doc_help(lines):
    # a doc attribute may hold several lines (block comments): split, then drop one leading blank of each
    lines = [x for l in lines for x in l.lstrip("@").split("\n")]
    lines = [l[1:] if l.startswith(" ") else l for l in lines]
    while lines and not lines[0].strip():
        lines.pop(0)
    while lines and not lines[-1].strip():
        lines.pop()
    if not lines:
        return "", ""
    paras, cur = [], []
    for l in lines:
        if l.strip():
            cur.append(l.strip())
        elif cur:
            paras.append(" ".join(cur))
            cur = []
    if cur:
        paras.append(" ".join(cur))

    def noperiod(s):
        return s[:-1] if s.endswith(".") and not s.endswith("..") else s
    if len(paras) > 1:
        return noperiod(paras[0]), "\r\n\r\n".join(paras)
    return noperiod(paras[0]), paras[0]


# ---------------------------------------------------------------------------------------
# declaration DSL

def arg(field, ty, optional=False, short=None, long=None, default_value=None, default_value_t=None,
        value_name=None, doc=None, default_canon=None):
    """short / long: None (absent), True (generated) or explicit char / string.
    default_value: string; default_value_t: True (Default::default()) or a Rust expression string."""
    return {"field": field, "ty": ty, "optional": optional, "short": short, "long": long,
            "default_value": default_value, "default_value_t": default_value_t, "value_name": value_name,
            "doc": doc or [], "default_canon": default_canon}


def variant(ident, args=None, name=None, doc=None, sub=None, sub_optional=False, tuple_sub=False, sub_field="command"):
    return {"ident": ident, "name": name, "args": args or [], "doc": doc or [], "sub": sub,
            "sub_optional": sub_optional, "tuple_sub": tuple_sub, "sub_field": sub_field}


def command(eid, variants, title=None):
    return {"id": eid, "kind": "command", "title": title, "variants": variants}


def group(eid, members):
    """members: (ident, enum id, hidden)"""
    return {"id": eid, "kind": "group", "members": [{"ident": i, "enum": e, "hidden": h} for i, e, h in members]}


DEFAULT_OF = {"bool": "false", "char": "\\0", "str": ""}


def canon_default(a):
    """canonical rendering (Rust Debug-like, see harness canon()) of the declared default"""
    if a["default_value"] is not None:
        return a["default_value"]
    t = a["default_value_t"]
    if t is True:
        if a["ty"] in INT_TYPES:
            return "0"
        if a["ty"] in ("f32", "f64"):
            return "0.0"
        if a["ty"] == "bool":
            return "false"
        if a["ty"] == "char":
            return "\0"
        return ""
    return a["default_canon"]


def resolve(enums):
    """Compute the derived facts of every declaration (names, usage, help strings)."""
    out = []
    for e in enums:
        if e["kind"] == "group":
            out.append({"id": e["id"], "kind": "group", "title": "", "variants": [],
                        "members": [{"ident": m["ident"], "enum": m["enum"], "hidden": m["hidden"]} for m in e["members"]]})
            continue
        vs = []
        for v in e["variants"]:
            name = v["name"] if v["name"] is not None else kebab(v["ident"])
            short_doc, long_doc = doc_help(v["doc"])
            args = []
            for a in v["args"]:
                long = None
                if a["long"] is True:
                    long = kebab(a["field"])
                elif a["long"]:
                    long = a["long"]
                short = None
                if a["short"] is True:
                    short = a["field"][0]
                elif a["short"]:
                    short = a["short"]
                named = long is not None or short is not None
                kind = "pos" if not named else ("flag" if a["ty"] == "bool" else "opt")
                value_name = a["value_name"] if a["value_name"] is not None else a["field"].upper()
                has_default = a["default_value"] is not None or a["default_value_t"] is not None
                prefix = ("--" + long) if long is not None else (("-" + short) if short is not None else "")
                if kind == "flag":
                    usage = prefix
                elif kind == "opt":
                    usage = prefix + (" [%s]" % value_name if a["optional"] else " <%s>" % value_name)
                else:
                    usage = "[%s]" % value_name if a["optional"] else "<%s>" % value_name
                names = ", ".join((["-" + short] if short is not None else []) + (["--" + long] if long is not None else []))
                display = names if kind == "flag" else (names + " " + ("[%s]" % value_name if a["optional"] else "<%s>" % value_name)) if kind == "opt" else usage
                ashort, _ = doc_help(a["doc"])
                args.append({"field": a["field"], "kind": kind, "ty": a["ty"], "optional": a["optional"],
                             "long": long or "", "long_cp": cps(long or ""), "has_long": long is not None,
                             "short": short or "", "short_cp": ord(short) if short else 0,
                             "has_default": has_default,
                             "default_val": list(canon_default(a).encode("utf-8")) if has_default else [],
                             "value_name": value_name, "usage": usage, "usage_cp": cps(usage),
                             "display": display, "display_cp": cps(display),
                             "summary": ashort, "summary_cp": cps(ashort)})
            vs.append({"ident": v["ident"], "name": name, "name_cp": cps(name),
                       "kind": "tuple" if v["tuple_sub"] else ("unit" if not v["args"] and not v["sub"] else "struct"),
                       "args": args, "sub": v["sub"] or "", "sub_optional": v["sub_optional"], "sub_field": v["sub_field"],
                       "summary": short_doc, "summary_cp": cps(short_doc),
                       "description": long_doc, "description_cp": cps(long_doc), "has_description": bool(long_doc)})
        title = e["title"] if e["title"] is not None else "Commands"
        out.append({"id": e["id"], "kind": "command", "title": title, "title_cp": cps(title), "variants": vs, "members": []})
    return out


# ---------------------------------------------------------------------------------------
# Rust generation

def rust_type(ty, lt):
    return "&%s str" % lt if ty == "str" else ty


def uses_lifetime(e, by_id, seen=None):
    seen = seen or set()
    if e["id"] in seen:
        return False
    seen.add(e["id"])
    if e["kind"] == "group":
        return any(uses_lifetime(by_id[m["enum"]], by_id, seen) for m in e["members"])
    for v in e["variants"]:
        if any(a["ty"] == "str" for a in v["args"]):
            return True
        if v["sub"] and uses_lifetime(by_id[v["sub"]], by_id, seen):
            return True
    return False


def rust_ident(eid):
    return "D_" + eid


def rust_str(s):
    return json.dumps(s, ensure_ascii=False)


def gen_rust(enums):
    by_id = {e["id"]: e for e in enums}
    lt = {e["id"]: uses_lifetime(e, by_id) for e in enums}
    L = []
    w = L.append
    w("//! GENERATED by /verif/gen/catalogue.py - do not edit. Command declarations of the catalogue,")
    w("//! compiled with the repository's derive macros, plus a structural dump of parsed values.")
    w("#![allow(non_camel_case_types, dead_code, unreachable_code, clippy::all)]")
    w("")
    w("use embedded_cli::{")
    w("    cli::CliHandle,")
    w("    command::RawCommand,")
    w("    service::{CommandProcessor, FromRaw, ProcessError},")
    w("    Command, CommandGroup,")
    w("};")
    w("use serde_json::{json, Value};")
    w("")
    w("use crate::cli_run::TestCli;")
    w("use crate::sink::{Sink, SinkError};")
    w("use crate::typed::{canon, Dump, TypedCtx};")
    w("")
    for e in enums:
        name = rust_ident(e["id"])
        gen = "<'a>" if lt[e["id"]] else ""
        if e["kind"] == "group":
            w("#[derive(CommandGroup)]")
            w("pub enum %s%s {" % (name, gen))
            for m in e["members"]:
                if m["hidden"]:
                    w("    #[group(hidden)]")
                sub = rust_ident(m["enum"]) + ("<'a>" if lt[m["enum"]] else "")
                w("    %s(%s)," % (m["ident"], sub))
            w("}")
            w("")
            w("impl%s Dump for %s%s {" % (gen, name, gen))
            w("    fn dump(&self) -> Value {")
            w("        match self {")
            for m in e["members"]:
                w("            Self::%s(inner) => json!({\"v\": %s, \"f\": [], \"sub\": [inner.dump()]})," % (m["ident"], rust_str(m["ident"])))
            w("        }")
            w("    }")
            w("}")
            w("")
            continue
        w("#[derive(Command)]")
        if e["title"] is not None:
            w("#[command(help_title = %s)]" % rust_str(e["title"]))
        w("pub enum %s%s {" % (name, gen))
        for v in e["variants"]:
            for d in v["doc"]:
                if d.startswith("@"):
                    w("    #[doc = %s]" % rust_str(d[1:]))
                else:
                    w("    ///%s" % d)
            attrs = []
            if v["name"] is not None:
                attrs.append("name = %s" % rust_str(v["name"]))
            if v["tuple_sub"]:
                attrs.append("subcommand")
            if attrs:
                w("    #[command(%s)]" % ", ".join(attrs))
            sub_ty = None
            if v["sub"]:
                sub_ty = rust_ident(v["sub"]) + ("<'a>" if lt[v["sub"]] else "")
                if v["sub_optional"]:
                    sub_ty = "Option<%s>" % sub_ty
            if v["tuple_sub"]:
                w("    %s(%s)," % (v["ident"], sub_ty))
            elif not v["args"] and not v["sub"]:
                w("    %s," % v["ident"])
            else:
                w("    %s {" % v["ident"])
                for a in v["args"]:
                    for d in a["doc"]:
                        w("        ///%s" % d)
                    at = []
                    if a["short"] is True:
                        at.append("short")
                    elif a["short"]:
                        at.append("short = '%s'" % a["short"])
                    if a["long"] is True:
                        at.append("long")
                    elif a["long"]:
                        at.append("long = %s" % rust_str(a["long"]))
                    if a["default_value"] is not None:
                        at.append("default_value = %s" % rust_str(a["default_value"]))
                    if a["default_value_t"] is True:
                        at.append("default_value_t")
                    elif a["default_value_t"]:
                        at.append("default_value_t = %s" % a["default_value_t"])
                    if a["value_name"] is not None:
                        at.append("value_name = %s" % rust_str(a["value_name"]))
                    if at:
                        w("        #[arg(%s)]" % ", ".join(at))
                    ty = rust_type(a["ty"], "'a")
                    if a["optional"]:
                        ty = "Option<%s>" % ty
                    w("        %s: %s," % (a["field"], ty))
                if v["sub"]:
                    w("        #[command(subcommand)]")
                    w("        %s: %s," % (v["sub_field"], sub_ty))
                w("    },")
        w("}")
        w("")
        w("impl%s Dump for %s%s {" % (gen, name, gen))
        w("    fn dump(&self) -> Value {")
        w("        match %sself {" % ("*" if not e["variants"] else ""))
        for v in e["variants"]:
            if v["tuple_sub"]:
                if v["sub_optional"]:
                    w("            Self::%s(inner) => json!({\"v\": %s, \"f\": [], \"sub\": inner.iter().map(|s| s.dump()).collect::<Vec<_>>()})," % (v["ident"], rust_str(v["ident"])))
                else:
                    w("            Self::%s(inner) => json!({\"v\": %s, \"f\": [], \"sub\": [inner.dump()]})," % (v["ident"], rust_str(v["ident"])))
            elif not v["args"] and not v["sub"]:
                w("            Self::%s => json!({\"v\": %s, \"f\": [], \"sub\": []})," % (v["ident"], rust_str(v["ident"])))
            else:
                fields = [a["field"] for a in v["args"]] + ([v["sub_field"]] if v["sub"] else [])
                w("            Self::%s { %s } => {" % (v["ident"], ", ".join(fields)))
                w("                let mut f: Vec<Value> = vec![];")
                for a in v["args"]:
                    if a["optional"]:
                        w("                f.push(match %s { Some(x) => json!({\"n\": %s, \"some\": true, \"val\": canon(x)}), None => json!({\"n\": %s, \"some\": false, \"val\": []}) });" % (a["field"], rust_str(a["field"]), rust_str(a["field"])))
                    else:
                        w("                f.push(json!({\"n\": %s, \"some\": true, \"val\": canon(%s)}));" % (rust_str(a["field"]), a["field"]))
                if v["sub"]:
                    if v["sub_optional"]:
                        w("                let sub: Vec<Value> = %s.iter().map(|s| s.dump()).collect();" % v["sub_field"])
                    else:
                        w("                let sub: Vec<Value> = vec![%s.dump()];" % v["sub_field"])
                else:
                    w("                let sub: Vec<Value> = vec![];")
                w("                json!({\"v\": %s, \"f\": f, \"sub\": sub})" % rust_str(v["ident"]))
                w("            }")
        w("        }")
        w("    }")
        w("}")
        w("")
    # one processor and one feed function per declaration
    for e in enums:
        name = rust_ident(e["id"])
        ta = name + ("<'a>" if lt[e["id"]] else "")
        tu = name + ("<'_>" if lt[e["id"]] else "")
        ts = name + ("<'static>" if lt[e["id"]] else "")
        w("pub struct P_%s<'s> {" % e["id"])
        w("    pub ctx: &'s mut TypedCtx,")
        w("}")
        w("")
        w("impl<'s> CommandProcessor<Sink, SinkError> for P_%s<'s> {" % e["id"])
        w("    fn process<'a>(")
        w("        &mut self,")
        w("        cli: &mut CliHandle<'_, Sink, SinkError>,")
        w("        raw: RawCommand<'a>,")
        w("    ) -> Result<(), ProcessError<'a, SinkError>> {")
        w("        self.ctx.on_raw(&raw);")
        w("        match <%s as FromRaw<'a>>::parse(raw) {" % ta)
        w("            Ok(cmd) => self.ctx.on_ok(cli, cmd.dump()).map_err(ProcessError::WriteError),")
        w("            Err(e) => {")
        w("                self.ctx.on_err(&e);")
        w("                Err(ProcessError::ParseError(e))")
        w("            }")
        w("        }")
        w("    }")
        w("}")
        w("")
        w("pub fn feed_%s(cli: &mut TestCli, b: u8, ctx: &mut TypedCtx, via_processor: bool) -> Result<(), SinkError> {" % e["id"])
        w("    if via_processor {")
        w("        let mut p = <%s>::processor(|h: &mut CliHandle<'_, Sink, SinkError>, cmd: %s| ctx.on_ok(h, cmd.dump()));" % (ts if lt[e["id"]] else name, tu))
        w("        cli.process_byte::<%s, _>(b, &mut p)" % ts)
        w("    } else {")
        w("        let mut p = P_%s { ctx };" % e["id"])
        w("        cli.process_byte::<%s, _>(b, &mut p)" % ts)
        w("    }")
        w("}")
        w("")
    w("pub type FeedFn = fn(&mut TestCli, u8, &mut TypedCtx, bool) -> Result<(), SinkError>;")
    w("")
    w("pub fn feed_for(id: &str) -> Option<FeedFn> {")
    w("    match id {")
    for e in enums:
        w("        %s => Some(feed_%s)," % (rust_str(e["id"]), e["id"]))
    w("        _ => None,")
    w("    }")
    w("}")
    w("")
    w("pub const DECL_IDS: &[&str] = &[%s];" % ", ".join(rust_str(e["id"]) for e in enums))
    return "\n".join(L) + "\n"


# ---------------------------------------------------------------------------------------
# the fixed core catalogue

def core():
    E = []
    # plain unit commands, shared prefixes non-adjacent in declaration order
    E.append(command("plain", [
        variant("GetLed", doc=[" Get led state"]),
        variant("Exit", doc=[" Leave the shell.", "", " Second paragraph", " continues here.", "", "", " Third paragraph after two blank lines."]),
        variant("GetAdc"),
        variant("Go", doc=[" Go.."]),
    ]))
    # every attribute form on fields
    E.append(command("args", [
        variant("Pos", [arg("first", "u8", doc=[" First value"]), arg("second", "str", optional=True), ],
                doc=[" Two positionals"]),
        variant("Opts", [arg("name", "str", optional=True, short=True, long=True, doc=[" Name to use"]),
                         arg("config", "str", long="конф"),
                         arg("level", "u8", short=True),
                         arg("verbose", "bool", short="Ю", long=True),
                         arg("file", "str")],
                doc=[" Options, flags and a positional"]),
        variant("Defaults", [arg("count", "u16", long=True, default_value="7"),
                             arg("ratio", "f32", short="r", default_value_t="0.5", default_canon="0.5"),
                             arg("tag", "char", long=True, short="t", default_value_t=True),
                             arg("speed", "i32", default_value_t=True),
                             arg("label", "str", default_value="none", value_name="LBL")]),
        variant("Named", [arg("sample_rate", "u32", long=True, short=True, value_name="HZ", doc=[" Sampling rate.", " In hertz."]),
                          arg("dry_run", "bool", long=True),
                          arg("out_file", "str", optional=True)],
                name="cfg"),
        variant("Flags", [arg("a", "bool", short=True), arg("b", "bool", short=True, long="bee"), arg("quiet", "bool", long=True),
                          arg("maybe", "bool", optional=True, long=True, short="m"), arg("rest", "str", optional=True)]),
        # required arguments of different kinds interleaved in declaration order (the first MISSING one is reported)
        variant("Copy", [arg("file", "str"), arg("level", "u8", short=True, long=True)]),
        # generated short name next to an explicit long name with another initial, and the reverse
        # explicit long names are taken literally (underscores, capitals)
        variant("Lit", [arg("a", "bool", long="dry_run"), arg("b", "u8", long="maxSize", optional=True), arg("c", "str", long="out_dir")]),
        variant("Send", [arg("num", "u8", short=True, long="count"), arg("quiet_mode", "bool", short=True, long="silent"),
                         arg("text", "str", optional=True)]),
        variant("Mix", [arg("a", "u8"), arg("b", "u8", long=True), arg("c", "str"), arg("d", "i8", short=True), arg("e", "char")]),
    ], title="Arguments"))
    # all value types
    E.append(command("types", [
        variant("Ints", [arg("a", "u8"), arg("b", "i8", optional=True), arg("c", "u64", long=True, optional=True),
                         arg("d", "i16", short=True, optional=True)]),
        variant("Wide", [arg("a", "u128", long=True, optional=True), arg("b", "i128", long=True, optional=True),
                         arg("c", "usize", optional=True), arg("d", "isize", optional=True)]),
        variant("Mid", [arg("a", "u16", optional=True), arg("b", "u32", long=True, optional=True), arg("c", "i32", short=True, optional=True), arg("d", "i64", long=True, optional=True)]),
        variant("Floats", [arg("x", "f32"), arg("y", "f64", long=True, optional=True)]),
        variant("Chars", [arg("c", "char"), arg("d", "char", short=True, optional=True)]),
        variant("Bools", [arg("on", "bool"), arg("force", "bool", short=True)]),
        variant("Strs", [arg("s", "str"), arg("t", "str", long=True, optional=True)]),
    ]))
    # sub-commands nested to depth 3, optional sub-command, tuple variant
    E.append(command("leaf", [variant("Read", [arg("n", "u8", optional=True)], doc=[" Read it"]),
                              variant("Write", [arg("value", "str"), arg("force", "bool", short=True)]),
                              variant("Wipe")]))
    E.append(command("mid", [variant("Chan", [arg("idx", "u8", long=True, optional=True)], sub="leaf", doc=[" Channel operations"]),
                             variant("Status")]))
    E.append(command("top", [
        variant("Dev", [arg("bus", "u8", short=True, long=True, optional=True, doc=[" Bus number"]), arg("verbose", "bool", short=True)],
                sub="mid", doc=[" Device commands"]),
        variant("Opt", [arg("x", "bool", short=True)], sub="leaf", sub_optional=True, sub_field="action"),
        variant("Tup", sub="leaf", tuple_sub=True, doc=[" Tuple sub-command"]),
        variant("Ping"),
        variant("TupOpt", sub="leaf", tuple_sub=True, sub_optional=True),
        variant("Block", [arg("n", "u8", optional=True)],
                doc=["@ Block comment, first line\n continues on the second.\n\n Second paragraph\n of the block.", " Trailing line."]),
    ], title="Top"))
    # multi-byte names, name given explicitly, one name a prefix of another, help-like names
    E.append(command("names", [
        variant("SetAll"), variant("Set", [arg("v", "u8", optional=True)]),
        variant("Zha", name="жа"), variant("Zhb", name="жб", doc=[" Кириллица"]),
        variant("H"), variant("HelpMe"), variant("S", name="s"),
        variant("Cjk", name="中文", args=[arg("x", "str", long="名", short="字", optional=True)]),
        variant("Smile", name="😀x"),
        # field identifiers outside ASCII: generated short = first scalar value, generated long = the identifier
        variant("Uni", [arg("ширина", "u8", short=True, long=True, optional=True), arg("élan", "bool", short=True),
                        arg("名前", "str", short=True, optional=True), arg("ølen_max", "u8", long=True, optional=True)]),
    ]))
    E.append(command("hid", [variant("Secret", [arg("k", "u8", optional=True)]), variant("Stash")], title="Hidden"))
    E.append(command("base", [variant("Hello", [arg("name", "str", optional=True, doc=[" To whom to say hello"])], doc=[" Say hello"]),
                              variant("Stop", doc=[" Stop everything"])], title="Base"))
    E.append(command("empty", []))
    E.append(group("grp", [("Base", "base", False), ("Hid", "hid", True), ("Plain", "plain", False), ("Empty", "empty", False)]))
    E.append(group("grp2", [("Top", "top", False), ("Args", "args", False), ("Names", "names", False)]))
    E.append(group("grp3", [("Hid", "hid", True), ("Leaf", "leaf", False)]))
    # a hidden member declared BEFORE visible members that know the same command names (members are tried in
    # declaration order, hidden or not)
    E.append(command("dbg", [variant("Exit", [arg("hard", "bool", long=True)]), variant("Dump", [arg("addr", "u8")]),
                             variant("Hello", [arg("name", "u8")])], title="Debug"))
    E.append(group("grp5", [("Dbg", "dbg", True), ("Plain", "plain", False), ("Base", "base", False)]))
    # a group whose members are groups themselves
    E.append(group("grp4", [("Inner", "grp3", False), ("Outer", "grp", False), ("Names", "names", True)]))
    return E


# ---------------------------------------------------------------------------------------
# seed-dependent random declarations (thorough)

WORDS = ["Get", "Set", "Led", "Adc", "Run", "Stop", "Read", "Load", "Save", "Mode", "Fast", "Slow", "Log", "Net", "Up", "Down"]
FIELDS = ["alpha", "beta", "gamma", "delta", "rate", "count", "name", "path", "mode", "size", "x", "y", "zed", "low_pass", "hi_cut"]


def random_enum(rng, eid, leafs):
    nvar = rng.randint(1, 5)
    used = set()
    vs = []
    for _ in range(nvar):
        ident = "".join(rng.sample(WORDS, rng.randint(1, 2)))
        if ident in used or kebab(ident) == "help":
            continue
        used.add(ident)
        fields = rng.sample(FIELDS, rng.randint(0, 4))
        args = []
        shorts, longs = {"h"}, {"help"}
        sub = rng.choice(leafs) if leafs and rng.random() < 0.25 else None
        for f in fields:
            ty = rng.choice(TYPES)
            named = rng.random() < 0.55 or (sub is not None)
            optional = rng.random() < 0.4
            a = arg(f, ty, optional=optional)
            if ty == "bool" and not named and not optional:
                named = rng.random() < 0.7
            if named:
                if rng.random() < 0.7 and kebab(f) not in longs:
                    a["long"] = True
                    longs.add(kebab(f))
                if (a["long"] is None or rng.random() < 0.5) and f[0] not in shorts:
                    a["short"] = True
                    shorts.add(f[0])
                if a["long"] is None and a["short"] is None:
                    if sub is not None:
                        continue
            if not optional and ty != "bool" and rng.random() < 0.3:
                if ty in INT_TYPES:
                    a["default_value"] = str(rng.randint(0, 100))
                elif ty == "str":
                    a["default_value"] = "dflt"
                else:
                    a["default_value_t"] = True
            if rng.random() < 0.3:
                a["value_name"] = f.upper()[:3] + "V"
            if rng.random() < 0.5:
                a["doc"] = [" The %s value." % f]
            args.append(a)
        doc = [" %s command." % ident] if rng.random() < 0.6 else []
        vs.append(variant(ident, args, doc=doc, sub=sub, sub_optional=bool(sub) and rng.random() < 0.5))
    return command(eid, vs)


def main():
    seed, extra = 0, 0
    av = sys.argv[1:]
    for i, a in enumerate(av):
        if a == "--seed":
            seed = int(av[i + 1])
        if a == "--extra":
            extra = int(av[i + 1])
    enums = core()
    rng = random.Random(seed)
    for i in range(extra):
        enums.append(random_enum(rng, "rnd%d" % i, ["leaf"]))
    resolved = resolve(enums)
    os.makedirs(os.path.join(ROOT, "gen"), exist_ok=True)
    with open(os.path.join(ROOT, "gen", "catalogue.json"), "w") as f:
        json.dump({"seed": seed, "extra": extra, "enums": resolved}, f, ensure_ascii=False, indent=1)
    with open(os.path.join(ROOT, "harness", "src", "gen_cmds.rs"), "w") as f:
        f.write(gen_rust(enums))
    print("catalogue: %d declarations, %d variants" % (len(enums), sum(len(e.get("variants", [])) for e in enums)))


if __name__ == "__main__":
    main()
