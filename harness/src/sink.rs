//! Recording output sink with fault injection.
//!
//! Every `write` / `flush` of the library is logged as one operation. A write may be
//! accepted only partially (the `embedded_io::Write` contract allows it), and operation
//! number `k` of the current API call can be made to fail once or from then on.

use std::{cell::RefCell, rc::Rc};

use embedded_io::{ErrorKind, ErrorType, Write};
use serde_json::{json, Value};

#[derive(Clone, Debug, PartialEq, Eq)]
pub enum Op {
    /// accepted bytes of one `write` call
    W(Vec<u8>),
    /// successful flush
    F,
    /// handler (or `Cli::write` closure) begins / ends
    Hb,
    He,
    /// failed operation (write or flush)
    X,
}

#[derive(Clone, Copy, Debug, PartialEq, Eq)]
pub enum FailMode {
    None,
    Once,
    Permanent,
}

#[derive(Debug)]
pub struct SinkError;

impl embedded_io::Error for SinkError {
    fn kind(&self) -> ErrorKind {
        ErrorKind::Other
    }
}

#[derive(Debug)]
pub struct SinkState {
    pub ops: Vec<Op>,
    /// number of write/flush operations attempted in the current API call
    pub op_count: usize,
    pub fail_at: usize,
    pub fail_mode: FailMode,
    pub faults_fired: usize,
    /// state of the partial-write generator; 0 = always accept everything
    pub partial_rng: u64,
}

impl SinkState {
    fn should_fail(&mut self) -> bool {
        self.op_count += 1;
        let fail = match self.fail_mode {
            FailMode::None => false,
            FailMode::Once => self.op_count == self.fail_at,
            FailMode::Permanent => self.op_count >= self.fail_at,
        };
        if fail {
            self.faults_fired += 1;
            self.ops.push(Op::X);
        }
        fail
    }
}

#[derive(Clone, Debug)]
pub struct Sink(pub Rc<RefCell<SinkState>>);

impl Sink {
    pub fn new() -> Self {
        Sink(Rc::new(RefCell::new(SinkState {
            ops: vec![],
            op_count: 0,
            fail_at: 0,
            fail_mode: FailMode::None,
            faults_fired: 0,
            partial_rng: 0,
        })))
    }

    /// Start of an API call: forget logged operations, arm (or disarm) the fault
    pub fn begin_call(&self, fail_at: usize, mode: FailMode) {
        let mut s = self.0.borrow_mut();
        s.ops.clear();
        s.op_count = 0;
        s.fail_at = fail_at;
        s.fail_mode = mode;
        s.faults_fired = 0;
    }

    pub fn mark(&self, op: Op) {
        self.0.borrow_mut().ops.push(op);
    }

    pub fn take_ops(&self) -> Vec<Op> {
        std::mem::take(&mut self.0.borrow_mut().ops)
    }

    pub fn faults_fired(&self) -> usize {
        self.0.borrow().faults_fired
    }

    pub fn op_count(&self) -> usize {
        self.0.borrow().op_count
    }

    pub fn set_partial(&self, seed: u64) {
        self.0.borrow_mut().partial_rng = seed;
    }
}

impl Default for Sink {
    fn default() -> Self {
        Self::new()
    }
}

impl ErrorType for Sink {
    type Error = SinkError;
}

impl Write for Sink {
    fn write(&mut self, buf: &[u8]) -> Result<usize, Self::Error> {
        let mut s = self.0.borrow_mut();
        if buf.is_empty() {
            // embedded_io: writing an empty buffer is a no-op that may return Ok(0)
            return Ok(0);
        }
        if s.should_fail() {
            return Err(SinkError);
        }
        let n = if s.partial_rng != 0 && buf.len() > 1 {
            // xorshift
            let mut x = s.partial_rng;
            x ^= x << 13;
            x ^= x >> 7;
            x ^= x << 17;
            s.partial_rng = x;
            1 + (x as usize) % buf.len()
        } else {
            buf.len()
        };
        s.ops.push(Op::W(buf[..n].to_vec()));
        Ok(n)
    }

    fn flush(&mut self) -> Result<(), Self::Error> {
        let mut s = self.0.borrow_mut();
        if s.should_fail() {
            return Err(SinkError);
        }
        s.ops.push(Op::F);
        Ok(())
    }
}

pub fn ops_to_json(ops: &[Op]) -> Value {
    Value::Array(
        ops.iter()
            .map(|op| match op {
                Op::W(b) => json!({"k": "w", "b": b}),
                Op::F => json!({"k": "f", "b": []}),
                Op::Hb => json!({"k": "hb", "b": []}),
                Op::He => json!({"k": "he", "b": []}),
                Op::X => json!({"k": "x", "b": []}),
            })
            .collect(),
    )
}
