//! Hand-written command declarations used by the CLI-level session drivers.
//! Only the set of visible command names matters to those drivers (Tab completion,
//! help routing); parsing of arguments is exercised with the generated catalogue.

#![allow(dead_code)]

use embedded_cli::{
    command::RawCommand,
    service::{Autocomplete, Help},
    Command, CommandGroup,
};

pub trait CmdSet: Autocomplete + Help {
    const ID: &'static str;
    /// names of all commands of all visible groups, in declaration order
    const NAMES: &'static [&'static str];
}

impl CmdSet for RawCommand<'_> {
    const ID: &'static str = "raw";
    const NAMES: &'static [&'static str] = &[];
}

/// shared prefixes, non-adjacent in declaration order
#[derive(Command)]
pub enum Leds {
    /// Get led state
    GetLed {
        /// led index
        id: u8,
    },
    /// Leave
    Exit,
    /// Read adc
    GetAdc {
        #[arg(short = 's', long)]
        samples: Option<u16>,
        channel: u8,
    },
    Go,
}

impl CmdSet for Leds {
    const ID: &'static str = "leds";
    const NAMES: &'static [&'static str] = &["get-led", "exit", "get-adc", "go"];
}

/// one name a prefix of another (both orders), multi-byte names that differ in the
/// last octet of a character, names interacting with the built-in help
#[derive(Command)]
pub enum Mixed {
    SetAll,
    Set,
    #[command(name = "жа")]
    Zha,
    #[command(name = "жб")]
    Zhb,
    H,
    HelpMe,
    #[command(name = "s")]
    S,
    #[command(name = "中文")]
    Cjk,
    #[command(name = "😀x")]
    Smile,
}

impl CmdSet for Mixed {
    const ID: &'static str = "mixed";
    const NAMES: &'static [&'static str] =
        &["set-all", "set", "жа", "жб", "h", "help-me", "s", "中文", "😀x"];
}

/// names that diverge inside a 3-byte / 4-byte character (a byte-wise common prefix would
/// cut the character), and a name that is a proper prefix of such a name
#[derive(Command)]
pub enum Wide {
    #[command(name = "led-開")]
    LedOpen,
    #[command(name = "led-閉")]
    LedClose,
    #[command(name = "go-😀")]
    GoA,
    #[command(name = "go-😁")]
    GoB,
    #[command(name = "€a")]
    EuroA,
    #[command(name = "€")]
    Euro,
}

impl CmdSet for Wide {
    const ID: &'static str = "wide";
    const NAMES: &'static [&'static str] = &["led-開", "led-閉", "go-😀", "go-😁", "€a", "€"];
}

#[derive(Command)]
#[command(help_title = "Store")]
pub enum Store {
    Get,
    Set,
}

#[derive(Command)]
#[command(help_title = "Hardware")]
pub enum Hardware {
    GetLed,
    GetAdc,
    Reset,
    SetAll,
}

/// a name of an earlier group is a proper prefix of names of a later group
#[derive(CommandGroup)]
pub enum Grouped2 {
    Store(Store),
    Hardware(Hardware),
}

impl CmdSet for Grouped2 {
    const ID: &'static str = "grouped2";
    const NAMES: &'static [&'static str] = &["get", "set", "get-led", "get-adc", "reset", "set-all"];
}

/// the name set of the small design-level models (MC_Cli, NameSet = "tiny")
#[derive(Command)]
pub enum Tiny {
    Ab,
    #[command(name = "aé")]
    Ae,
    B,
}

impl CmdSet for Tiny {
    const ID: &'static str = "tiny";
    const NAMES: &'static [&'static str] = &["ab", "aé", "b"];
}

#[derive(Command)]
#[command(help_title = "Base")]
pub enum Base {
    /// Say hello
    Hello,
    /// Stop everything
    Stop,
}

#[derive(Command)]
pub enum Hidden {
    Secret,
    Stash,
}

#[derive(CommandGroup)]
pub enum Grouped {
    Base(Base),
    #[group(hidden)]
    Hidden(Hidden),
    Leds(Leds),
}

impl CmdSet for Grouped {
    const ID: &'static str = "grouped";
    const NAMES: &'static [&'static str] =
        &["hello", "stop", "get-led", "exit", "get-adc", "go"];
}

/// Run `$body` with the type alias `$S` bound to the command set named `$id`
#[macro_export]
macro_rules! with_set {
    ($id:expr, $S:ident, $body:block) => {
        match $id {
            "raw" => {
                type $S = embedded_cli::command::RawCommand<'static>;
                $body
            }
            "leds" => {
                type $S = $crate::sets::Leds;
                $body
            }
            "mixed" => {
                type $S = $crate::sets::Mixed;
                $body
            }
            "grouped" => {
                type $S = $crate::sets::Grouped;
                $body
            }
            "tiny" => {
                type $S = $crate::sets::Tiny;
                $body
            }
            "wide" => {
                type $S = $crate::sets::Wide;
                $body
            }
            "grouped2" => {
                type $S = $crate::sets::Grouped2;
                $body
            }
            other => panic!("unknown command set {other}"),
        }
    };
}

pub const SET_IDS: &[&str] = &["raw", "leds", "mixed", "grouped", "tiny", "wide", "grouped2"];
