//! Executes session scripts against the real `Cli` and records one event per API call.
//!
//! A script is one JSON object per line:
//!   {"sid": 7, "cfg": {"cmd": 8, "hcap": 16, "set": "leds", "prompt": 0, "partial": 0, "poison": false},
//!    "steps": [{"ev": "byte", "b": 97, "hs": {...}, "fail": {"at": 2, "mode": "once"}},
//!              {"ev": "write", "chunks": [{"m": "w", "t": [104, 105]}]},
//!              {"ev": "prompt", "p": 2}]}
//! The recorded events carry the inputs, the sink operations, the handler calls and the
//! full projected state (through the verif-hooks accessors). No expected value is
//! computed here: judging the records is the specification's job.

use std::panic::{catch_unwind, AssertUnwindSafe};

use embedded_cli::{
    arguments::Arg,
    buffer::Buffer,
    cli::{Cli, CliBuilder, CliHandle},
    command::RawCommand,
    service::{CommandProcessor, ParseError, ProcessError},
    writer::Writer,
};
use serde_json::{json, Value};

use crate::{
    sets::CmdSet,
    sink::{ops_to_json, FailMode, Op, Sink, SinkError},
    with_set,
};

pub const PROMPTS: &[&str] = &["$ ", "", "ж> ", "> ", "dev:~# ", "中", "=> ", "λ "];

pub type TestCli = Cli<Sink, SinkError, &'static mut [u8], &'static mut [u8]>;

#[derive(Clone, Debug, Default)]
pub struct Chunk {
    /// "w" write_str, "wl" writeln_str, "u" ufmt::uwrite!, "f" core::fmt::Write, ...
    pub m: String,
    pub t: Vec<u8>,
    /// description and width for write_list_element
    pub d: Vec<u8>,
    pub w: usize,
}

#[derive(Clone, Debug, Default)]
pub struct HandlerScript {
    pub chunks: Vec<Chunk>,
    /// index into PROMPTS, or -1
    pub prompt: i64,
    /// 0, or which ParseError a hand-written processor returns after its output
    pub perr: i64,
}

fn parse_chunks(v: Option<&Value>) -> Vec<Chunk> {
    v.and_then(|v| v.as_array())
        .map(|a| {
            a.iter()
                .map(|c| Chunk {
                    m: c["m"].as_str().unwrap_or("w").to_string(),
                    t: bytes_of(&c["t"]),
                    d: bytes_of(&c["d"]),
                    w: c["w"].as_u64().unwrap_or(0) as usize,
                })
                .collect()
        })
        .unwrap_or_default()
}

pub fn bytes_of(v: &Value) -> Vec<u8> {
    v.as_array()
        .map(|a| a.iter().map(|x| x.as_u64().unwrap_or(0) as u8).collect())
        .unwrap_or_default()
}

fn chunks_json(chunks: &[Chunk]) -> Value {
    Value::Array(
        chunks
            .iter()
            .map(|c| json!({"m": c.m, "t": c.t}))
            .collect(),
    )
}

fn parse_hs(v: Option<&Value>) -> HandlerScript {
    match v {
        Some(v) if v.is_object() => HandlerScript {
            chunks: parse_chunks(v.get("chunks")),
            prompt: v.get("p").and_then(|p| p.as_i64()).unwrap_or(-1),
            perr: v.get("perr").and_then(|p| p.as_i64()).unwrap_or(0),
        },
        _ => HandlerScript {
            chunks: vec![],
            prompt: -1,
            perr: 0,
        },
    }
}

fn parse_fail(v: Option<&Value>) -> (usize, FailMode) {
    match v {
        Some(v) if v.is_object() => {
            let at = v.get("at").and_then(|a| a.as_u64()).unwrap_or(0) as usize;
            let mode = match v.get("mode").and_then(|m| m.as_str()).unwrap_or("none") {
                "once" => FailMode::Once,
                "perm" => FailMode::Permanent,
                _ => FailMode::None,
            };
            (at, mode)
        }
        _ => (0, FailMode::None),
    }
}

fn fail_json(at: usize, mode: FailMode) -> Value {
    let m = match mode {
        FailMode::None => "none",
        FailMode::Once => "once",
        FailMode::Permanent => "perm",
    };
    json!({"at": at, "mode": m})
}

/// Perform scripted output through the library's `Writer`
pub fn perform(writer: &mut Writer<'_, Sink, SinkError>, chunks: &[Chunk]) -> Result<(), SinkError> {
    for c in chunks {
        let text = std::str::from_utf8(&c.t).expect("script text must be UTF-8");
        match c.m.as_str() {
            "w" => writer.write_str(text)?,
            "wl" => writer.writeln_str(text)?,
            "u" => ufmt::uwrite!(writer, "{}", text)?,
            "f" => {
                use core::fmt::Write as _;
                write!(writer, "{}", text).map_err(|_| SinkError)?
            }
            // character by character through the formatting traits (write_char paths)
            "fc" => {
                use core::fmt::Write as _;
                for ch in text.chars() {
                    write!(writer, "{}", ch).map_err(|_| SinkError)?
                }
            }
            "uc" => {
                for ch in text.chars() {
                    ufmt::uwrite!(writer, "{}", ch)?
                }
            }
            // constant format strings (no run-time arguments): `t` names one of a fixed menu of literals
            "kf" | "kl" | "ku" | "kn" => konst(writer, c.m.as_str(), text)?,
            // the other public methods of Writer: write_title(text); write_list_element(text, description, width)
            "ti" => writer.write_title(text)?,
            "le" => {
                let desc = std::str::from_utf8(&c.d).expect("script text must be UTF-8");
                writer.write_list_element(text, desc, c.w)?
            }
            other => panic!("unknown chunk method {other}"),
        }
    }
    Ok(())
}

macro_rules! konst_menu {
    ($w:expr, $m:expr, $text:expr, [$($lit:literal),*]) => {{
        use core::fmt::Write as _;
        match ($m, $text) {
            $(("kf", $lit) => write!($w, $lit).map_err(|_| SinkError),)*
            $(("kl", concat!($lit, "\n")) => writeln!($w, $lit).map_err(|_| SinkError),)*
            $(("ku", $lit) => ufmt::uwrite!($w, $lit),)*
            $(("kn", concat!($lit, "\n")) => ufmt::uwriteln!($w, $lit),)*
            (m, t) => panic!("no literal {t:?} for chunk method {m}"),
        }
    }};
}

/// `write!` / `writeln!` / `uwrite!` / `uwriteln!` with a literal and no arguments
fn konst(writer: &mut Writer<'_, Sink, SinkError>, m: &str, text: &str) -> Result<(), SinkError> {
    konst_menu!(writer, m, text, ["done", "", "ok\n", "a\nb", "x", "ж€ z", "two\r\nrows\n"])
}

struct RawHandler<'s> {
    calls: &'s mut Vec<Value>,
    script: &'s HandlerScript,
    sink: Sink,
}

pub fn arg_json(arg: &Arg<'_>) -> Value {
    match arg {
        Arg::DoubleDash => json!({"k": "dd", "t": []}),
        Arg::LongOption(name) => json!({"k": "long", "t": name.as_bytes()}),
        Arg::ShortOption(c) => {
            let mut buf = [0u8; 4];
            let s = c.encode_utf8(&mut buf);
            json!({"k": "short", "t": s.as_bytes()})
        }
        Arg::Value(v) => json!({"k": "value", "t": v.as_bytes()}),
    }
}

impl CommandProcessor<Sink, SinkError> for RawHandler<'_> {
    fn process<'a>(
        &mut self,
        cli: &mut CliHandle<'_, Sink, SinkError>,
        raw: RawCommand<'a>,
    ) -> Result<(), ProcessError<'a, SinkError>> {
        let args: Vec<Value> = raw.args().args().map(|a| arg_json(&a)).collect();
        self.calls
            .push(json!({"name": raw.name().as_bytes(), "args": args}));
        self.sink.mark(Op::Hb);
        let res = perform(cli.writer(), &self.script.chunks);
        if res.is_ok() && self.script.prompt >= 0 {
            cli.set_prompt(PROMPTS[self.script.prompt as usize]);
        }
        self.sink.mark(Op::He);
        res.map_err(ProcessError::WriteError)?;
        // a hand-written processor may reject the command after having written something
        match self.script.perr {
            0 => Ok(()),
            1 => Err(ProcessError::ParseError(ParseError::UnknownCommand)),
            2 => Err(ProcessError::ParseError(ParseError::UnexpectedArgument { value: raw.name() })),
            _ => Err(ProcessError::ParseError(ParseError::MissingRequiredArgument { name: "THING" })),
        }
    }
}

fn project<CB: Buffer, HB: Buffer>(cli: &Cli<Sink, SinkError, CB, HB>) -> Value {
    let (line, cur) = cli.__verif_line();
    #[allow(unused_mut)]
    let mut hist: Vec<Value> = vec![];
    #[cfg(feature = "history")]
    let nav: i64 = {
        let n = cli.__verif_history(|e| hist.push(json!(e)));
        if n == usize::MAX {
            -1
        } else {
            n as i64
        }
    };
    #[cfg(not(feature = "history"))]
    let nav: i64 = 0;
    json!({
        "line": line,
        "cur": if cur == usize::MAX { -1 } else { cur as i64 },
        "hist": hist,
        "nav": nav,
        "prompt": cli.__verif_prompt().as_bytes(),
    })
}

fn raw_state<CB: Buffer, HB: Buffer>(cli: &Cli<Sink, SinkError, CB, HB>) -> Value {
    let dec = cli.__verif_decoder().map(|(csi, last, buf, partial, expected)| {
        json!({"csi": csi, "last": last, "buf": buf.to_vec(), "partial": partial, "expected": expected})
    });
    let ed = cli
        .__verif_editor_raw()
        .map(|(buf, valid, cursor)| json!({"buf": buf, "valid": valid, "cursor": cursor}));
    #[cfg(feature = "history")]
    let hs = {
        let (buf, used, cursor) = cli.__verif_history_raw();
        json!({"buf": buf, "used": used, "cursor": cursor.map(|c| c as i64).unwrap_or(-1)})
    };
    #[cfg(not(feature = "history"))]
    let hs = Value::Null;
    json!({"dec": dec, "ed": ed, "hs": hs})
}

pub struct RunOpts {
    /// also log raw buffers / decoder state (diagnostics, C03 refinement)
    pub raw: bool,
}

fn leak(n: usize) -> &'static mut [u8] {
    Box::leak(vec![0u8; n].into_boxed_slice())
}

#[allow(clippy::too_many_arguments)]
fn record<CB: Buffer, HB: Buffer>(
    ev: &str,
    sid: i64,
    i: usize,
    b: i64,
    chunks: &[Chunk],
    p: &[u8],
    hs: &HandlerScript,
    fail: (usize, FailMode),
    sink: &Sink,
    res_ok: bool,
    calls: Vec<Value>,
    cli: Option<&Cli<Sink, SinkError, CB, HB>>,
    opts: &RunOpts,
) -> Value {
    let ops = sink.take_ops();
    let hs_p: &[u8] = if hs.prompt >= 0 {
        PROMPTS[hs.prompt as usize].as_bytes()
    } else {
        &[]
    };
    let mut rec = json!({
        "ev": ev,
        "sid": sid,
        "i": i,
        "b": b,
        "fired": sink.faults_fired(),
        "nops": sink.op_count(),
        "res": if res_ok { "ok" } else { "err" },
        "ops": ops_to_json(&ops),
        "calls": calls,
        "st": cli.map(project).unwrap_or(json!({"line": [], "cur": 0, "hist": [], "nav": 0, "prompt": []})),
    });
    // optional fields (absent = default) keep the traces small
    if !chunks.is_empty() || ev == "write" {
        rec["chunks"] = chunks_json(chunks);
    }
    if ev == "prompt" || ev == "init" {
        rec["p"] = json!(p);
    }
    if !hs.chunks.is_empty() || hs.prompt >= 0 || hs.perr > 0 {
        rec["hs"] = json!({"chunks": chunks_json(&hs.chunks), "setp": hs.prompt >= 0, "p": hs_p, "perr": hs.perr});
    }
    if fail.1 != FailMode::None {
        rec["fail"] = fail_json(fail.0, fail.1);
    }
    if opts.raw {
        if let Some(cli) = cli {
            rec["raw"] = raw_state(cli);
        }
    }
    rec
}

fn run_session<S: CmdSet>(script: &Value, out: &mut dyn FnMut(Value), opts: &RunOpts) {
    let sid = script["sid"].as_i64().unwrap_or(0);
    let cfg = &script["cfg"];
    let cmd = cfg["cmd"].as_u64().unwrap_or(16) as usize;
    let hcap = cfg["hcap"].as_u64().unwrap_or(16) as usize;
    let prompt_idx = cfg["prompt"].as_u64().unwrap_or(0) as usize;
    let partial = cfg["partial"].as_u64().unwrap_or(0);
    let poison = cfg["poison"].as_bool().unwrap_or(false);
    let via_processor = cfg["rawproc"].as_bool().unwrap_or(false);
    let sink = Sink::new();
    sink.set_partial(partial);
    let (fail_at, fail_mode) = parse_fail(script["cfg"].get("fail"));
    sink.begin_call(fail_at, fail_mode);

    let typed_id = cfg["decl"].as_str().map(|s| s.to_string());
    let typed_feed = typed_id.as_deref().and_then(crate::gen_cmds::feed_for);
    let names: Vec<Value> = if typed_feed.is_some() {
        cfg["names"].as_array().cloned().unwrap_or_default()
    } else {
        S::NAMES.iter().map(|n| json!(n.as_bytes())).collect()
    };
    // how the Cli is constructed: "slices" (builder, &mut [u8] buffers of the requested sizes),
    // "default" (builder defaults: [u8; 40] / [u8; 100] arrays, prompt "$ "),
    // "arrays" (builder with [u8; 5] / [u8; 9] arrays), "new" (deprecated Cli::new, [u8; 12] / [u8; 20])
    let ctor = cfg["ctor"].as_str().unwrap_or("slices").to_string();
    let (cmd, hcap, prompt): (usize, usize, &'static str) = match ctor.as_str() {
        "default" => (40, 100, "$ "),
        "arrays" | "promptfirst" => (5, 9, PROMPTS[prompt_idx]),
        "new" => (12, 20, "$ "),
        _ => (cmd, hcap, PROMPTS[prompt_idx]),
    };
    let cfg_json = json!({
        "cmd": cmd,
        "hcap": hcap,
        "set": typed_id.clone().unwrap_or_else(|| S::ID.to_string()),
        "names": names,
        "prompt": prompt.as_bytes(),
        "hist": cfg!(feature = "history"),
        "ac": cfg!(feature = "autocomplete"),
        "help": cfg!(feature = "help"),
        "partial": partial != 0,
        "ctor": ctor,
    });
    let common = Common {
        sid,
        prompt,
        poison,
        via_processor,
        fail0: (fail_at, fail_mode),
        cfg_json,
    };
    match ctor.as_str() {
        "default" => {
            let built = CliBuilder::default().writer(sink.clone()).build();
            drive::<S, _, _>(built, None, script, &sink, &common, out, opts)
        }
        "promptfirst" => {
            // the builder's setters in another order: prompt and buffers first, writer last
            let built = CliBuilder::default()
                .prompt(prompt)
                .command_buffer([0u8; 5])
                .history_buffer([0u8; 9])
                .writer(sink.clone())
                .build();
            drive::<S, _, _>(built, None, script, &sink, &common, out, opts)
        }
        "arrays" => {
            let built = CliBuilder::default()
                .writer(sink.clone())
                .command_buffer([0u8; 5])
                .history_buffer([0u8; 9])
                .prompt(prompt)
                .build();
            drive::<S, _, _>(built, None, script, &sink, &common, out, opts)
        }
        "new" => {
            #[allow(deprecated)]
            let built = Cli::new(sink.clone(), [0u8; 12], [0u8; 20]);
            drive::<S, _, _>(built, None, script, &sink, &common, out, opts)
        }
        _ => {
            let built = CliBuilder::default()
                .writer(sink.clone())
                .command_buffer(leak(cmd))
                .history_buffer(leak(hcap))
                .prompt(prompt)
                .build();
            match typed_feed {
                Some(feed) => {
                    let f = move |cli: &mut TestCli, b: u8, ctx: &mut crate::typed::TypedCtx| feed(cli, b, ctx, false);
                    drive::<S, _, _>(built, Some(&f), script, &sink, &common, out, opts)
                }
                None => drive::<S, _, _>(built, None, script, &sink, &common, out, opts),
            }
        }
    }
}

struct Common {
    sid: i64,
    prompt: &'static str,
    poison: bool,
    via_processor: bool,
    fail0: (usize, FailMode),
    cfg_json: Value,
}

type TypedFeed<'f, CB, HB> = Option<
    &'f dyn Fn(&mut Cli<Sink, SinkError, CB, HB>, u8, &mut crate::typed::TypedCtx) -> Result<(), SinkError>,
>;

fn drive<S: CmdSet, CB: Buffer, HB: Buffer>(
    built: Result<Cli<Sink, SinkError, CB, HB>, SinkError>,
    typed_feed: TypedFeed<'_, CB, HB>,
    script: &Value,
    sink: &Sink,
    common: &Common,
    out: &mut dyn FnMut(Value),
    opts: &RunOpts,
) {
    let sid = common.sid;
    let poison = common.poison;
    let via_processor = common.via_processor;
    let (fail_at, fail_mode) = common.fail0;
    let empty_hs = HandlerScript {
        chunks: vec![],
        prompt: -1,
        perr: 0,
    };
    let mut cli = match built {
        Ok(cli) => {
            let mut rec = record(
                "init", sid, 0, -1, &[], common.prompt.as_bytes(), &empty_hs,
                (fail_at, fail_mode), sink, true, vec![], Some(&cli), opts,
            );
            rec["cfg"] = common.cfg_json.clone();
            out(rec);
            cli
        }
        Err(_) => {
            let mut rec = record::<CB, HB>(
                "init", sid, 0, -1, &[], common.prompt.as_bytes(), &empty_hs,
                (fail_at, fail_mode), sink, false, vec![], None, opts,
            );
            rec["cfg"] = common.cfg_json.clone();
            out(rec);
            return;
        }
    };

    let steps = script["steps"].as_array().cloned().unwrap_or_default();
    for (idx, step) in steps.iter().enumerate() {
        let i = idx + 1;
        let ev = step["ev"].as_str().unwrap_or("byte");
        let fail = parse_fail(step.get("fail"));
        if poison {
            cli.__verif_poison_dead(0xFF);
        }
        sink.begin_call(fail.0, fail.1);
        match ev {
            "byte" => {
                let b = step["b"].as_u64().unwrap_or(0) as u8;
                let mut hs = parse_hs(step.get("hs"));
                let mut calls = vec![];
                let res = if let Some(feed) = typed_feed {
                    // a derived command set: the processor parses the raw command itself
                    let mut tctx = crate::typed::TypedCtx {
                        raw_calls: vec![],
                        calls: vec![],
                        errs: vec![],
                        script: hs.clone(),
                        sink: sink.clone(),
                    };
                    let r = feed(&mut cli, b, &mut tctx);
                    calls = std::mem::take(&mut tctx.raw_calls);
                    if tctx.calls.is_empty() {
                        // the line was rejected by the derived parser: the application's
                        // handler (and with it the scripted output / prompt change) never ran
                        hs = HandlerScript {
                            chunks: vec![],
                            prompt: -1,
                            perr: 0,
                        };
                    }
                    r
                } else if via_processor && hs.perr == 0 {
                    // the library's own wrapper: RawCommand::processor(closure)
                    let sink2 = sink.clone();
                    let calls_ref = &mut calls;
                    let hs_ref = &hs;
                    let mut handler = RawCommand::processor(
                        |h: &mut CliHandle<'_, Sink, SinkError>, raw: RawCommand<'_>| {
                            let args: Vec<Value> = raw.args().args().map(|a| arg_json(&a)).collect();
                            calls_ref.push(json!({"name": raw.name().as_bytes(), "args": args}));
                            sink2.mark(Op::Hb);
                            let res = perform(h.writer(), &hs_ref.chunks);
                            if res.is_ok() && hs_ref.prompt >= 0 {
                                h.set_prompt(PROMPTS[hs_ref.prompt as usize]);
                            }
                            sink2.mark(Op::He);
                            res
                        },
                    );
                    cli.process_byte::<S, _>(b, &mut handler)
                } else {
                    let mut handler = RawHandler {
                        calls: &mut calls,
                        script: &hs,
                        sink: sink.clone(),
                    };
                    cli.process_byte::<S, _>(b, &mut handler)
                };
                out(record(
                    "byte", sid, i, b as i64, &[], &[], &hs, fail, &sink, res.is_ok(), calls,
                    Some(&cli), opts,
                ));
            }
            "write" => {
                let chunks = parse_chunks(step.get("chunks"));
                let s2 = sink.clone();
                let res = cli.write(|w| {
                    s2.mark(Op::Hb);
                    let r = perform(w, &chunks);
                    s2.mark(Op::He);
                    r
                });
                out(record(
                    "write", sid, i, -1, &chunks, &[], &empty_hs, fail, &sink, res.is_ok(),
                    vec![], Some(&cli), opts,
                ));
            }
            "prompt" => {
                let p = step["p"].as_u64().unwrap_or(0) as usize;
                let res = cli.set_prompt(PROMPTS[p]);
                out(record(
                    "prompt", sid, i, -1, &[], PROMPTS[p].as_bytes(), &empty_hs, fail, &sink,
                    res.is_ok(), vec![], Some(&cli), opts,
                ));
            }
            other => panic!("unknown step {other}"),
        }
    }
}

/// Run all scripts from `input` (ndjson), writing records to `output` (ndjson).
/// `BEGIN <sid>` / `END <sid>` lines go to `progress` so that a crash (abort, signal)
/// of the code under test can be attributed to a session by the orchestrator.
pub fn run_scripts(
    input: &mut dyn std::io::BufRead,
    output: &mut dyn std::io::Write,
    progress: &mut dyn std::io::Write,
    opts: &RunOpts,
) {
    let mut line = String::new();
    loop {
        line.clear();
        if input.read_line(&mut line).unwrap_or(0) == 0 {
            break;
        }
        if line.trim().is_empty() {
            continue;
        }
        let script: Value = serde_json::from_str(&line).expect("script line must be JSON");
        let sid = script["sid"].as_i64().unwrap_or(0);
        let set = script["cfg"]["set"].as_str().unwrap_or("raw").to_string();
        writeln!(progress, "BEGIN {sid}").ok();
        progress.flush().ok();
        let mut recs: Vec<Value> = vec![];
        let result = catch_unwind(AssertUnwindSafe(|| {
            let mut sink_fn = |v: Value| recs.push(v);
            with_set!(set.as_str(), S, {
                run_session::<S>(&script, &mut sink_fn, opts);
            });
        }));
        for r in &recs {
            serde_json::to_writer(&mut *output, r).unwrap();
            output.write_all(b"\n").unwrap();
        }
        if let Err(e) = result {
            let msg = e
                .downcast_ref::<String>()
                .cloned()
                .or_else(|| e.downcast_ref::<&str>().map(|s| s.to_string()))
                .unwrap_or_else(|| "panic".to_string());
            let rec = json!({"ev": "panic", "sid": sid, "i": recs.len(), "msg": msg});
            serde_json::to_writer(&mut *output, &rec).unwrap();
            output.write_all(b"\n").unwrap();
        }
        output.flush().ok();
        writeln!(progress, "END {sid}").ok();
    }
    progress.flush().ok();
}
