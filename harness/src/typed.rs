//! Support for the generated command declarations (gen_cmds.rs): structural dump of parsed
//! values, the canonical rendering of argument values, the typed handler context and the
//! runner that submits one line to a derived command set.

use embedded_cli::{
    cli::{CliBuilder, CliHandle},
    service::ParseError,
};
use serde_json::{json, Value};

use crate::cli_run::{bytes_of, perform, HandlerScript, TestCli, PROMPTS};
use crate::sink::{ops_to_json, FailMode, Op, Sink, SinkError};

pub trait Dump {
    fn dump(&self) -> Value;
}

/// Canonical rendering of an argument value: what `{:?}` prints for floats (so that 1 and
/// 1.0 are the same value), `to_string` for everything else, the text itself for strings.
pub trait Canon {
    fn canon(&self) -> Vec<u8>;
}

macro_rules! canon_display {
    ($($t:ty),+) => { $(impl Canon for $t { fn canon(&self) -> Vec<u8> { self.to_string().into_bytes() } })+ };
}
canon_display!(u8, i8, u16, i16, u32, i32, u64, i64, u128, i128, usize, isize, char, bool);

impl Canon for f32 {
    fn canon(&self) -> Vec<u8> {
        format!("{:?}", self).into_bytes()
    }
}
impl Canon for f64 {
    fn canon(&self) -> Vec<u8> {
        format!("{:?}", self).into_bytes()
    }
}
impl Canon for &str {
    fn canon(&self) -> Vec<u8> {
        self.as_bytes().to_vec()
    }
}

pub fn canon<T: Canon>(v: &T) -> Vec<u8> {
    v.canon()
}

/// The field type's canonical parser (`str::parse::<T>()` of the standard library, which does
/// not involve embedded-cli): does `tok` convert to `ty`, and to which value?
pub fn conv(tok: &str, ty: &str) -> (bool, Vec<u8>) {
    macro_rules! p {
        ($t:ty) => {
            match tok.parse::<$t>() {
                Ok(v) => (true, v.canon()),
                Err(_) => (false, vec![]),
            }
        };
    }
    match ty {
        "u8" => p!(u8),
        "i8" => p!(i8),
        "u16" => p!(u16),
        "i16" => p!(i16),
        "u32" => p!(u32),
        "i32" => p!(i32),
        "u64" => p!(u64),
        "i64" => p!(i64),
        "u128" => p!(u128),
        "i128" => p!(i128),
        "usize" => p!(usize),
        "isize" => p!(isize),
        "f32" => p!(f32),
        "f64" => p!(f64),
        "char" => p!(char),
        "bool" => p!(bool),
        "str" => (true, tok.as_bytes().to_vec()),
        other => panic!("unknown type {other}"),
    }
}

pub struct TypedCtx {
    /// raw commands handed to the processor (name + classified arguments), before parsing
    pub raw_calls: Vec<Value>,
    pub calls: Vec<Value>,
    pub errs: Vec<Value>,
    pub script: HandlerScript,
    pub sink: Sink,
}

impl TypedCtx {
    pub fn on_raw(&mut self, raw: &embedded_cli::command::RawCommand<'_>) {
        let args: Vec<Value> = raw.args().args().map(|a| crate::cli_run::arg_json(&a)).collect();
        self.raw_calls
            .push(json!({"name": raw.name().as_bytes(), "args": args}));
    }

    pub fn on_ok(
        &mut self,
        cli: &mut CliHandle<'_, Sink, SinkError>,
        dump: Value,
    ) -> Result<(), SinkError> {
        self.calls.push(dump);
        self.sink.mark(Op::Hb);
        let res = perform(cli.writer(), &self.script.chunks);
        if res.is_ok() && self.script.prompt >= 0 {
            cli.set_prompt(PROMPTS[self.script.prompt as usize]);
        }
        self.sink.mark(Op::He);
        res
    }

    pub fn on_err(&mut self, e: &ParseError<'_>) {
        let v = match e {
            ParseError::MissingRequiredArgument { name } => {
                json!({"kind": "missing", "payload": name.as_bytes(), "ty": ""})
            }
            ParseError::ParseValueError { value, expected } => {
                json!({"kind": "parse-value", "payload": value.as_bytes(), "ty": expected})
            }
            ParseError::UnexpectedArgument { value } => {
                json!({"kind": "unexpected-arg", "payload": value.as_bytes(), "ty": ""})
            }
            ParseError::UnexpectedLongOption { name } => {
                json!({"kind": "unexpected-long", "payload": name.as_bytes(), "ty": ""})
            }
            ParseError::UnexpectedShortOption { name } => {
                let mut b = [0u8; 4];
                json!({"kind": "unexpected-short", "payload": name.encode_utf8(&mut b).as_bytes(), "ty": ""})
            }
            ParseError::UnknownCommand => json!({"kind": "unknown", "payload": [], "ty": ""}),
            _ => json!({"kind": "other", "payload": [], "ty": ""}),
        };
        self.errs.push(v);
    }
}

fn leak(n: usize) -> &'static mut [u8] {
    Box::leak(vec![0u8; n].into_boxed_slice())
}

/// Quote a token only when it needs it
pub fn render_token(t: &[u8]) -> Vec<u8> {
    let plain = !t.is_empty() && !t.iter().any(|&b| b == b' ' || b == b'"' || b == b'\\');
    if plain {
        return t.to_vec();
    }
    let mut out = vec![b'"'];
    for &b in t {
        if b == b'"' || b == b'\\' {
            out.push(b'\\');
        }
        out.push(b);
    }
    out.push(b'"');
    out
}

/// Submit one line (a token list) to declaration `decl`; record everything observable.
/// request: {"m": "parse", "decl": id, "toks": [[bytes]], "via": "parse" | "processor",
///           "types": [type names to compute conversions for], "fail": {...}}
pub fn run_parse(req: &Value, out: &mut dyn FnMut(Value)) {
    let decl = req["decl"].as_str().expect("decl");
    let feed = crate::gen_cmds::feed_for(decl).unwrap_or_else(|| panic!("unknown declaration {decl}"));
    let via_processor = req["via"].as_str().unwrap_or("parse") == "processor";
    let toks: Vec<Vec<u8>> = req["toks"]
        .as_array()
        .map(|a| a.iter().map(bytes_of).collect())
        .unwrap_or_default();
    let mut line: Vec<u8> = vec![];
    for (i, t) in toks.iter().enumerate() {
        if i > 0 {
            line.push(b' ');
        }
        line.extend(render_token(t));
    }
    let sink = Sink::new();
    sink.begin_call(0, FailMode::None);
    let mut cli: TestCli = CliBuilder::default()
        .writer(sink.clone())
        .command_buffer(leak(line.len() + 8))
        .history_buffer(leak(0))
        .prompt("$ ")
        .build()
        .expect("build");
    let hs = HandlerScript {
        chunks: vec![],
        prompt: -1,
        perr: 0,
    };
    let mut ctx = TypedCtx {
        raw_calls: vec![],
        calls: vec![],
        errs: vec![],
        script: hs,
        sink: sink.clone(),
    };
    for &b in &line {
        sink.begin_call(0, FailMode::None);
        feed(&mut cli, b, &mut ctx, via_processor).expect("typing cannot fail");
    }
    let (typed, _) = cli.__verif_line();
    let typed = typed.to_vec();
    sink.begin_call(0, FailMode::None);
    let res = feed(&mut cli, b'\r', &mut ctx, via_processor);
    let ops = sink.take_ops();
    let mut written: Vec<u8> = vec![];
    for op in &ops {
        if let Op::W(b) = op {
            written.extend_from_slice(b);
        }
    }
    // strip the line break that ends the submitted line and the prompt that follows the answer
    let body: Vec<u8> = if written.starts_with(b"\r\n") && written.ends_with(b"$ ") {
        written[2..written.len() - 2].to_vec()
    } else {
        written.clone()
    };
    let framed = written.starts_with(b"\r\n") && written.ends_with(b"$ ");
    let types: Vec<String> = req["types"]
        .as_array()
        .map(|a| a.iter().filter_map(|t| t.as_str().map(|s| s.to_string())).collect())
        .unwrap_or_default();
    let mut convs: Vec<Value> = vec![];
    for t in &toks {
        if let Ok(s) = std::str::from_utf8(t) {
            for ty in &types {
                let (ok, val) = conv(s, ty);
                convs.push(json!({"tok": t, "ty": ty, "ok": ok, "val": val}));
            }
        }
    }
    let toks_json: Vec<Value> = toks.iter().map(|t| json!(t)).collect();
    out(json!({
        "m": "parse",
        "decl": decl,
        "via": if via_processor { "processor" } else { "parse" },
        "toks": toks_json,
        "typed_ok": typed == line,
        "res": if res.is_ok() { "ok" } else { "err" },
        "calls": ctx.calls,
        "errs": ctx.errs,
        "out": body,
        "framed": framed,
        "ops": ops_to_json(&ops),
        "conv": convs,
    }));
}
