//! Drivers for the library's internal modules (re-exported by the verif-hooks feature).
//! Input: one JSON request per line; output: one JSON record per case with what the real
//! code returned. Nothing is judged here.

use embedded_cli::__verif::{
    utils, ControlInput, Editor, Input, InputGenerator, Tokens, Utf8Accum,
};
#[cfg(feature = "history")]
use embedded_cli::__verif::History;
use embedded_cli::arguments::ArgList;
use serde_json::{json, Value};

use crate::cli_run::{arg_json, bytes_of};

fn key_json(input: Option<Input<'_>>) -> Value {
    match input {
        None => json!({"k": "none", "t": []}),
        Some(Input::Char(s)) => json!({"k": "char", "t": s.as_bytes()}),
        Some(Input::Control(c)) => {
            let k = match c {
                ControlInput::Backspace => "bs",
                ControlInput::Down => "down",
                ControlInput::Enter => "enter",
                ControlInput::Back => "left",
                ControlInput::Forward => "right",
                ControlInput::Tab => "tab",
                ControlInput::Up => "up",
            };
            json!({"k": k, "t": []})
        }
    }
}

fn run_dec(req: &Value, out: &mut dyn FnMut(Value)) {
    let bytes = bytes_of(&req["bytes"]);
    let mut g = InputGenerator::new();
    let evs: Vec<Value> = bytes.iter().map(|&b| key_json(g.accept(b))).collect();
    out(json!({"m": "dec", "bytes": bytes, "evs": evs}));
}

fn run_accum(req: &Value, out: &mut dyn FnMut(Value)) {
    let bytes = bytes_of(&req["bytes"]);
    let mut a = Utf8Accum::default();
    let evs: Vec<Value> = bytes
        .iter()
        .map(|&b| match a.push_byte(b) {
            Some(s) => json!(s.as_bytes()),
            None => json!([]),
        })
        .collect();
    out(json!({"m": "accum", "bytes": bytes, "evs": evs}));
}

fn ed_state<B: embedded_cli::buffer::Buffer>(e: &Editor<B>) -> (Vec<u8>, usize) {
    (e.text().as_bytes().to_vec(), e.cursor())
}

fn run_editor(req: &Value, out: &mut dyn FnMut(Value)) {
    let cap = req["cap"].as_u64().unwrap_or(0) as usize;
    let mut buf = vec![0u8; cap];
    let mut e = Editor::new(&mut buf[..]);
    let mut sts = vec![];
    let ops = req["ops"].as_array().cloned().unwrap_or_default();
    for op in &ops {
        let ret: Value = match op["o"].as_str().unwrap_or("") {
            "ins" => {
                let t = bytes_of(&op["t"]);
                let text = std::str::from_utf8(&t).expect("editor input must be UTF-8");
                match e.insert(text) {
                    Some(s) => json!({"some": true, "t": s.as_bytes()}),
                    None => json!({"some": false, "t": []}),
                }
            }
            "bs" => {
                let moved = e.move_left();
                if moved {
                    e.remove();
                }
                json!({"some": moved, "t": []})
            }
            "remove" => {
                e.remove();
                json!({"some": true, "t": []})
            }
            "left" => json!({"some": e.move_left(), "t": []}),
            "right" => json!({"some": e.move_right(), "t": []}),
            "clear" => {
                e.clear();
                json!({"some": true, "t": []})
            }
            other => panic!("unknown editor op {other}"),
        };
        let (line, cur) = ed_state(&e);
        sts.push(json!({"line": line, "cur": cur, "len": e.len(), "ret": ret}));
    }
    out(json!({"m": "editor", "cap": cap, "ops": ops, "sts": sts}));
}

#[cfg(feature = "history")]
fn run_history(req: &Value, out: &mut dyn FnMut(Value)) {
    let hcap = req["hcap"].as_u64().unwrap_or(0) as usize;
    let mut buf = vec![0u8; hcap];
    let mut h = History::new(&mut buf[..]);
    let mut sts = vec![];
    let ops = req["ops"].as_array().cloned().unwrap_or_default();
    for op in &ops {
        let ret: Value = match op["o"].as_str().unwrap_or("") {
            "push" => {
                let t = bytes_of(&op["t"]);
                let text = std::str::from_utf8(&t).expect("history input must be UTF-8");
                h.push(text);
                json!([])
            }
            "older" => match h.next_older() {
                Some(s) => json!([s.as_bytes()]),
                None => json!([]),
            },
            "newer" => match h.next_newer() {
                Some(s) => json!([s.as_bytes()]),
                None => json!([]),
            },
            other => panic!("unknown history op {other}"),
        };
        let mut hist: Vec<Value> = vec![];
        let n = h.__verif_entries(|e| hist.push(json!(e)));
        let nav: i64 = if n == usize::MAX { -1 } else { n as i64 };
        sts.push(json!({"hist": hist, "nav": nav, "ret": ret}));
    }
    out(json!({"m": "history", "hcap": hcap, "ops": ops, "sts": sts}));
}

#[cfg(not(feature = "history"))]
fn run_history(_req: &Value, _out: &mut dyn FnMut(Value)) {
    panic!("history feature is off");
}

fn tokens_record(line: &[u8]) -> Value {
    let mut buf = line.to_vec();
    let text = std::str::from_utf8_mut(&mut buf).expect("line must be UTF-8");
    let tokens = Tokens::new(text);
    let toks: Vec<Value> = tokens.iter().map(|t| json!(t.as_bytes())).collect();
    json!({"m": "tokens", "line": line, "toks": toks, "empty": tokens.is_empty()})
}

fn args_record(toks: &[Vec<u8>]) -> Value {
    // the raw representation of a token list: tokens separated by NUL
    let mut raw: Vec<u8> = vec![];
    for (i, t) in toks.iter().enumerate() {
        if i > 0 {
            raw.push(0);
        }
        raw.extend_from_slice(t);
    }
    let text = std::str::from_utf8(&raw).expect("tokens must be UTF-8");
    let tokens = Tokens::from_raw(text, toks.is_empty());
    let list = ArgList::new(tokens);
    let items: Vec<Value> = list.args().map(|a| arg_json(&a)).collect();
    let toks_json: Vec<Value> = toks.iter().map(|t| json!(t)).collect();
    // the same items through the other ways an iterator is consumed: nth(k) on a fresh iterator, skip(k)
    let none = json!({"k": "none", "t": []});
    let nth: Vec<Value> = (0..=items.len())
        .map(|k| list.args().nth(k).map(|a| arg_json(&a)).unwrap_or_else(|| none.clone()))
        .collect();
    let skip_then_next: Vec<Value> = (0..=items.len())
        .map(|k| list.args().skip(k).next().map(|a| arg_json(&a)).unwrap_or_else(|| none.clone()))
        .collect();
    // nth in the middle of an iteration: one next(), then nth(k)
    let next_then_nth: Vec<Value> = (0..items.len())
        .map(|k| {
            let mut it = list.args();
            it.next();
            it.nth(k).map(|a| arg_json(&a)).unwrap_or_else(|| none.clone())
        })
        .collect();
    // hand-over of the remaining tokens (ArgsIter::into_args, used for sub-commands and `help <command>`)
    let split: Vec<Value> = (0..=items.len())
        .map(|k| {
            let mut it = list.args();
            for _ in 0..k {
                it.next();
            }
            let rest = it.into_args();
            Value::Array(rest.args().map(|a| arg_json(&a)).collect())
        })
        .collect();
    json!({"m": "args", "toks": toks_json, "items": items, "nth": nth, "skip": skip_then_next,
           "next_nth": next_then_nth, "split": split})
}

fn enc(cp: u32) -> Vec<u8> {
    let c = char::from_u32(cp).expect("scalar");
    let mut b = [0u8; 4];
    c.encode_utf8(&mut b).as_bytes().to_vec()
}

fn opt_idx(v: Option<usize>) -> i64 {
    v.map(|x| x as i64).unwrap_or(-1)
}

/// One record for scalar `cp`: the library's own text utilities applied to the character
/// alone and between two neighbours `a` and `b`.
fn scalar_record(cp: u32, a: u32, b: u32, alt: u32) -> Value {
    let c = char::from_u32(cp).expect("scalar");
    let mut buf = [0u8; 4];
    let encoded = utils::encode_utf8(c, &mut buf).as_bytes().to_vec();
    let mut text: Vec<u8> = enc(a);
    text.extend(enc(cp));
    text.extend(enc(b));
    let s = std::str::from_utf8(&text).unwrap();
    let mut text2: Vec<u8> = enc(a);
    text2.extend(enc(cp));
    text2.extend(enc(alt));
    let s2 = std::str::from_utf8(&text2).unwrap();
    let mut text3: Vec<u8> = enc(a);
    text3.extend(enc(alt));
    let s3 = std::str::from_utf8(&text3).unwrap();
    let mut tail: Vec<u8> = enc(cp);
    tail.extend(enc(b));
    let tail_s = std::str::from_utf8(&tail).unwrap();
    let (pc, prest) = utils::char_pop_front(tail_s).unwrap();
    let idx: Vec<i64> = (0..5)
        .map(|k| opt_idx(utils::char_byte_index(s, k)))
        .collect();
    json!({
        "m": "scalar", "cp": cp, "a": a, "b": b, "alt": alt,
        "enc": encoded,
        "count": utils::char_count(s),
        "idx": idx,
        "pop_c": pc as u32,
        "pop_rest": prest.as_bytes(),
        "cpl_same": utils::common_prefix_len(s, s),
        "cpl_b": utils::common_prefix_len(s, s2),
        "cpl_x": utils::common_prefix_len(s, s3),
    })
}

fn next_scalar(cp: u32) -> u32 {
    if cp == 0xD7FF {
        0xE000
    } else {
        cp + 1
    }
}

/// a scalar with the same encoded length as `cp` differing from it only in the last octet
/// (so that a byte-wise common prefix would stop inside the character)
fn alt_of(cp: u32) -> u32 {
    let cand = cp ^ 1;
    if char::from_u32(cand).is_some() && enc(cand).len() == enc(cp).len() && cand >= 0x20 {
        cand
    } else {
        cp ^ 2
    }
}

fn run_scalar_range(req: &Value, out: &mut dyn FnMut(Value)) {
    let lo = req["lo"].as_u64().unwrap_or(0x20) as u32;
    let hi = req["hi"].as_u64().unwrap_or(0x110000) as u32;
    // neighbours of every encoded length, rotated
    let neigh: [u32; 4] = [0x61, 0xE9, 0x4E2D, 0x1F600];
    let mut cp = lo;
    let mut n = 0usize;
    while cp < hi {
        if char::from_u32(cp).is_some() {
            let a = neigh[n % 4];
            let b = neigh[(n / 4 + 1) % 4];
            out(scalar_record(cp, a, b, alt_of(cp)));
            n += 1;
        }
        cp = next_scalar(cp);
    }
}

/// Enumerate all index strings over an alphabet of `n` symbols with length <= maxlen
fn enumerate(n: usize, maxlen: usize, f: &mut dyn FnMut(&[usize])) {
    for len in 0..=maxlen {
        if len > 0 && n == 0 {
            break;
        }
        let mut idx = vec![0usize; len];
        'outer: loop {
            f(&idx);
            let mut p = len;
            loop {
                if p == 0 {
                    break 'outer;
                }
                p -= 1;
                idx[p] += 1;
                if idx[p] < n {
                    break;
                }
                idx[p] = 0;
            }
        }
    }
}

fn run_tokens_enum(req: &Value, out: &mut dyn FnMut(Value)) {
    let alphabet: Vec<Vec<u8>> = req["alphabet"]
        .as_array()
        .unwrap()
        .iter()
        .map(|c| enc(c.as_u64().unwrap() as u32))
        .collect();
    let maxlen = req["maxlen"].as_u64().unwrap_or(3) as usize;
    enumerate(alphabet.len(), maxlen, &mut |idx| {
        let mut line = vec![];
        for &i in idx {
            line.extend_from_slice(&alphabet[i]);
        }
        out(tokens_record(&line));
    });
}

fn run_args_enum(req: &Value, out: &mut dyn FnMut(Value)) {
    let alphabet: Vec<Vec<u8>> = req["tokens"]
        .as_array()
        .unwrap()
        .iter()
        .map(bytes_of)
        .collect();
    let maxlen = req["maxlen"].as_u64().unwrap_or(3) as usize;
    enumerate(alphabet.len(), maxlen, &mut |idx| {
        let toks: Vec<Vec<u8>> = idx.iter().map(|&i| alphabet[i].clone()).collect();
        out(args_record(&toks));
    });
}

pub fn run_request(req: &Value, out: &mut dyn FnMut(Value)) {
    match req["m"].as_str().unwrap_or("") {
        "dec" => run_dec(req, out),
        "accum" => run_accum(req, out),
        "editor" => run_editor(req, out),
        "history" => run_history(req, out),
        "tokens" => out(tokens_record(&bytes_of(&req["line"]))),
        "args" => {
            let toks: Vec<Vec<u8>> = req["toks"]
                .as_array()
                .map(|a| a.iter().map(bytes_of).collect())
                .unwrap_or_default();
            out(args_record(&toks))
        }
        "scalar_range" => run_scalar_range(req, out),
        "parse" => crate::typed::run_parse(req, out),
        "tokens_enum" => run_tokens_enum(req, out),
        "args_enum" => run_args_enum(req, out),
        other => panic!("unknown module request {other}"),
    }
}

/// Exhaustive check support for C02: feed every sequence of `len` bytes >= 0x80 to
/// `Utf8Accum` and report, per sequence of byte classes, the set of emission patterns seen.
/// classes: `class_of[b - 128]` gives the class index of byte b. A pattern is the string of
/// emitted lengths per position ("0030"). Also checks locally that whatever is returned is
/// exactly the last n bytes fed and is accepted by `core::str::from_utf8` (second judge).
pub fn utf8_exhaustive(class_of: &[u8], nclasses: usize, len: usize, reps: Option<&[u8]>) -> Value {
    use std::collections::BTreeMap;
    let mut table: BTreeMap<Vec<u8>, std::collections::BTreeSet<String>> = BTreeMap::new();
    let mut bad: Vec<Value> = vec![];
    let mut count: u64 = 0;
    let domain: Vec<u8> = match reps {
        Some(r) => r.to_vec(),
        None => (128u16..=255).map(|b| b as u8).collect(),
    };
    let n = domain.len();
    let total = (n as u64).pow(len as u32);
    let mut idx = vec![0usize; len];
    let _ = nclasses;
    for _ in 0..total {
        let seq: Vec<u8> = idx.iter().map(|&i| domain[i]).collect();
        let mut a = Utf8Accum::default();
        let mut pat = String::with_capacity(len);
        for (pos, &b) in seq.iter().enumerate() {
            match a.push_byte(b) {
                Some(s) => {
                    let sb = s.as_bytes();
                    let l = sb.len();
                    let consumed_ok = l <= pos + 1 && &seq[pos + 1 - l..=pos] == sb;
                    let utf8_ok = core::str::from_utf8(sb).is_ok();
                    if (!consumed_ok || !utf8_ok) && bad.len() < 20 {
                        bad.push(json!({"seq": seq, "pos": pos, "out": sb, "consumed_ok": consumed_ok, "utf8_ok": utf8_ok}));
                    }
                    pat.push(char::from_digit(l as u32, 10).unwrap_or('9'));
                }
                None => pat.push('0'),
            }
        }
        let cls: Vec<u8> = seq.iter().map(|&b| class_of[(b - 128) as usize]).collect();
        table.entry(cls).or_default().insert(pat);
        count += 1;
        // increment
        let mut p = len;
        while p > 0 {
            p -= 1;
            idx[p] += 1;
            if idx[p] < n {
                break;
            }
            idx[p] = 0;
        }
    }
    let entries: Vec<Value> = table
        .into_iter()
        .map(|(k, v)| json!({"cls": k, "pats": v.into_iter().collect::<Vec<_>>()}))
        .collect();
    json!({"len": len, "count": count, "table": entries, "bad": bad})
}
