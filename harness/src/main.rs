//! vh: the verification harness executor. It runs inputs against the real embedded-cli
//! code (built from /repo's working tree with the verif-hooks feature) and records what
//! happened. It never judges: expectations live in the TLA+ specification.

mod cli_run;
mod gen_cmds;
mod mod_run;
mod sets;
mod sink;
mod typed;

use std::io::{BufRead, BufReader, BufWriter, Write};

use serde_json::Value;

fn open_in(path: &str) -> Box<dyn BufRead> {
    if path == "-" {
        Box::new(BufReader::new(std::io::stdin()))
    } else {
        Box::new(BufReader::new(
            std::fs::File::open(path).unwrap_or_else(|e| panic!("open {path}: {e}")),
        ))
    }
}

fn open_out(path: &str) -> Box<dyn Write> {
    if path == "-" {
        Box::new(BufWriter::new(std::io::stdout()))
    } else {
        Box::new(BufWriter::new(
            std::fs::File::create(path).unwrap_or_else(|e| panic!("create {path}: {e}")),
        ))
    }
}

fn usage() -> ! {
    eprintln!(
        "usage: vh cli <scripts.ndjson|-> <trace.ndjson|-> [--raw]\n       vh mod <requests.ndjson|-> <records.ndjson|->\n       vh utf8x <classes.json> <len> <out.json> [reps]\n       vh features"
    );
    std::process::exit(2)
}

fn main() {
    let args: Vec<String> = std::env::args().collect();
    if args.len() < 2 {
        usage();
    }
    match args[1].as_str() {
        "features" => {
            println!(
                "{}",
                serde_json::json!({
                    "history": cfg!(feature = "history"),
                    "autocomplete": cfg!(feature = "autocomplete"),
                    "help": cfg!(feature = "help"),
                    "debug_assertions": cfg!(debug_assertions),
                })
            );
        }
        "cli" => {
            if args.len() < 4 {
                usage();
            }
            let mut input = open_in(&args[2]);
            let mut output = open_out(&args[3]);
            let opts = cli_run::RunOpts {
                raw: args.iter().any(|a| a == "--raw"),
            };
            let mut progress = std::io::stderr();
            cli_run::run_scripts(&mut *input, &mut *output, &mut progress, &opts);
            output.flush().unwrap();
        }
        "mod" => {
            if args.len() < 4 {
                usage();
            }
            let input = open_in(&args[2]);
            let mut output = open_out(&args[3]);
            for line in input.lines() {
                let line = line.unwrap();
                if line.trim().is_empty() {
                    continue;
                }
                let req: Value = serde_json::from_str(&line).expect("request must be JSON");
                let mut emit = |v: Value| {
                    serde_json::to_writer(&mut *output, &v).unwrap();
                    output.write_all(b"\n").unwrap();
                };
                mod_run::run_request(&req, &mut emit);
            }
            output.flush().unwrap();
        }
        "utf8x" => {
            if args.len() < 5 {
                usage();
            }
            let classes: Value =
                serde_json::from_reader(open_in(&args[2])).expect("classes json");
            let class_of: Vec<u8> = classes["class_of"]
                .as_array()
                .unwrap()
                .iter()
                .map(|v| v.as_u64().unwrap() as u8)
                .collect();
            let nclasses = classes["n"].as_u64().unwrap() as usize;
            let len: usize = args[3].parse().unwrap();
            let reps: Option<Vec<u8>> = if args.len() > 5 && args[5] == "reps" {
                Some(
                    classes["reps"]
                        .as_array()
                        .unwrap()
                        .iter()
                        .map(|v| v.as_u64().unwrap() as u8)
                        .collect(),
                )
            } else {
                None
            };
            let res = mod_run::utf8_exhaustive(&class_of, nclasses, len, reps.as_deref());
            let mut output = open_out(&args[4]);
            serde_json::to_writer(&mut output, &res).unwrap();
            output.flush().unwrap();
        }
        _ => usage(),
    }
}
